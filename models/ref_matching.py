"""Reference models for the bottleneck (min-max) and Wasserstein (min-sum) partial
matching problems between two persistence diagrams.

* `enum_minmax` / `enum_minsum`: definition-level enumeration of all partial
  matchings (each point of either diagram is paired with a point of the other
  diagram or sent to the diagonal).  Exponential; used for sizes <= 4.
* `ref_bottleneck`: threshold search + SciPy maximum bipartite matching on the
  augmented graph.  Cross-checked against the enumeration on every small case.
* `ref_wasserstein`: SciPy assignment on my own augmented matrix built from
  hypot() costs (not from scikit-learn's expanded form).
"""
import numpy as np
from scipy.optimize import linear_sum_assignment
from scipy.sparse import csr_matrix
from scipy.sparse.csgraph import maximum_bipartite_matching


def finite_part(dgm):
    a = np.asarray(dgm, dtype=float)
    if a.size == 0:
        return np.zeros((0, 2))
    a = a.reshape(-1, a.shape[-1])[:, :2]
    return a[np.isfinite(a[:, 1])]


def linf_costs(S, T):
    S = np.asarray(S, float).reshape(-1, 2)
    T = np.asarray(T, float).reshape(-1, 2)
    if len(S) == 0 or len(T) == 0:
        C = np.zeros((len(S), len(T)))
    else:
        C = np.maximum(np.abs(S[:, None, 0] - T[None, :, 0]), np.abs(S[:, None, 1] - T[None, :, 1]))
    return C, 0.5 * (S[:, 1] - S[:, 0]), 0.5 * (T[:, 1] - T[:, 0])


def l2_costs(S, T):
    S = np.asarray(S, float).reshape(-1, 2)
    T = np.asarray(T, float).reshape(-1, 2)
    if len(S) == 0 or len(T) == 0:
        C = np.zeros((len(S), len(T)))
    else:
        C = np.hypot(S[:, None, 0] - T[None, :, 0], S[:, None, 1] - T[None, :, 1])
    r2 = np.sqrt(2.0)
    return C, (S[:, 1] - S[:, 0]) / r2, (T[:, 1] - T[:, 0]) / r2


def _enumerate(C, ds, dt, combine, better):
    """Enumerate all partial matchings; combine(acc, cost) folds costs."""
    M, N = C.shape
    best = [None]

    def rec(i, used, acc):
        if best[0] is not None and not better(acc, best[0]):
            # folding is monotone (max / sum of non-negatives): prune
            return
        if i == M:
            a = acc
            for j in range(N):
                if not (used >> j) & 1:
                    a = combine(a, dt[j])
            if best[0] is None or better(a, best[0]):
                best[0] = a
            return
        rec(i + 1, used, combine(acc, ds[i]))
        for j in range(N):
            if not (used >> j) & 1:
                rec(i + 1, used | (1 << j), combine(acc, C[i, j]))

    rec(0, 0, 0.0)
    return float(best[0])


def enum_minmax(S, T):
    C, ds, dt = linf_costs(S, T)
    return _enumerate(C, ds, dt, max, lambda a, b: a < b)


def enum_minsum(S, T):
    C, ds, dt = l2_costs(S, T)
    return _enumerate(C, ds, dt, lambda a, c: a + c, lambda a, b: a < b)


def _augmented(C, ds, dt):
    M, N = C.shape
    D = np.full((M + N, M + N), np.inf)
    D[:M, :N] = C
    D[np.arange(M), N + np.arange(M)] = ds
    D[M + np.arange(N), np.arange(N)] = dt
    D[M:, N:] = 0.0
    return D


def ref_bottleneck(S, T):
    """Smallest threshold t such that the graph {cost <= t} on the augmented
    (M+N)x(M+N) problem has a perfect matching."""
    C, ds, dt = linf_costs(S, T)
    M, N = C.shape
    if M + N == 0:
        return 0.0
    D = _augmented(C, ds, dt)
    cand = np.unique(D[np.isfinite(D)])
    lo, hi = 0, len(cand) - 1
    n = M + N

    def feasible(t):
        G = csr_matrix((D <= t).astype(np.int8))
        m = maximum_bipartite_matching(G, perm_type="column")
        return int((m >= 0).sum()) == n

    # the largest candidate is always feasible (everything to the diagonal is
    # contained in it because every diagonal cost is a candidate)
    while lo < hi:
        mid = (lo + hi) // 2
        if feasible(cand[mid]):
            hi = mid
        else:
            lo = mid + 1
    return float(cand[lo])


def ref_wasserstein(S, T):
    C, ds, dt = l2_costs(S, T)
    M, N = C.shape
    if M + N == 0:
        return 0.0
    D = _augmented(C, ds, dt)
    big = (np.nanmax(D[np.isfinite(D)]) + 1.0) * (M + N + 1) if np.isfinite(D).any() else 1.0
    D2 = np.where(np.isfinite(D), D, big)
    r, c = linear_sum_assignment(D2)
    return float(D2[r, c].sum())
