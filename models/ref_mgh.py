"""Exact modified Gromov-Hausdorff distance between small integer metric spaces.

2*mGH(X,Y) = max( min_{f:X->Y} dis f , min_{g:Y->X} dis g ),
dis f = max_{x,x'} |dX(x,x') - dY(f(x),f(x'))|   (all maps, not only injective).

`min_distortion` is a branch-and-bound over images assigned point by point
(prune when the partial distortion already reaches the incumbent);
`min_distortion_flat` enumerates all |Y|^|X| maps and is used to validate it.
"""
import itertools

import numpy as np
from scipy.sparse.csgraph import connected_components, shortest_path


def distance_matrix(n, edges):
    A = np.zeros((n, n), dtype=np.int8)
    for u, v in edges:
        A[u, v] = A[v, u] = 1
    D = shortest_path(A, directed=False, unweighted=True)
    return D


def components(n, edges):
    A = np.zeros((n, n), dtype=np.int8)
    for u, v in edges:
        A[u, v] = A[v, u] = 1
    k, lab = connected_components(A, directed=False)
    return [[i for i in range(n) if lab[i] == c] for c in range(k)]


def min_distortion_flat(DX, DY):
    n, m = len(DX), len(DY)
    best = None
    for f in itertools.product(range(m), repeat=n):
        f = list(f)
        dis = int(np.max(np.abs(DX - DY[np.ix_(f, f)])))
        if best is None or dis < best:
            best = dis
    return best


class Budget(Exception):
    pass


def min_distortion(DX, DY, node_budget=400000):
    """Exact min distortion of maps X->Y, or None if the node budget ran out."""
    DX = np.asarray(DX, dtype=np.int64)
    DY = np.asarray(DY, dtype=np.int64)
    n, m = len(DX), len(DY)
    if n == 0:
        return 0
    diamX, diamY = int(DX.max()), int(DY.max())
    lb = max(diamX - diamY, 1 if n > m else 0, 0)
    # order the points of X farthest-first: large distances constrain early
    order = [int(np.argmax(DX.sum(axis=1)))]
    while len(order) < n:
        rest = [i for i in range(n) if i not in order]
        order.append(max(rest, key=lambda i: (int(DX[i, order].min()), int(DX[i, order].sum()))))
    DXo = DX[np.ix_(order, order)]
    best = [max(diamX, diamY) + 1]
    nodes = [0]
    f = [0] * n

    def rec(k, cur):
        if best[0] <= lb:
            return
        if k == n:
            if cur < best[0]:
                best[0] = cur
            return
        nodes[0] += 1
        if nodes[0] > node_budget:
            raise Budget()
        if k == 0:
            cost = np.zeros(m, dtype=np.int64)
        else:
            cost = np.abs(DXo[k, :k][None, :] - DY[:, f[:k]]).max(axis=1)
        cost = np.maximum(cost, cur)
        ys = np.argsort(cost, kind="stable")
        for y in ys:
            c = int(cost[y])
            if c >= best[0]:
                break
            f[k] = int(y)
            rec(k + 1, c)
            if best[0] <= lb:
                return

    try:
        rec(0, 0)
    except Budget:
        return None
    return int(best[0])


def double_mgh(DX, DY, node_budget=400000):
    a = min_distortion(DX, DY, node_budget)
    if a is None:
        return None
    b = min_distortion(DY, DX, node_budget)
    if b is None:
        return None
    return max(a, b)
