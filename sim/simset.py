"""SimSet: the seam that owns iteration order of the `set`s used inside the
third-party Hopcroft-Karp matcher that `persim.bottleneck` drives.

Installed by `hopcroftkarp.set = SimSet` (a module global shadows the builtin),
so no file of the repository or of the dependency is edited.

Model: a set whose members are `str` yields them in an order decided by the
scheduler (a real CPython set orders str keys by their per-process salted hash,
so any order is a legal behaviour).  The order is drawn lazily (the matcher often
leaves a loop at the first hit) and is kept stable for as long as the set is not
modified, as a real set's order is.  Sets holding only ints keep CPython's real,
hash-seed independent order.
"""


class OrderCtx:
    """Which scheduler decides, and in which mode, for the current evaluation."""
    sched = None
    mode = "uniform"     # uniform | insertion | reverse | sparse
    iters = 0            # number of str-set iterations started
    permuted = 0         # number of non-insertion choices taken


CTX = OrderCtx()


class SimSet(object):
    __slots__ = ("_d", "_order", "_rest")

    def __init__(self, it=()):
        self._d = dict.fromkeys(it)
        self._order = None
        self._rest = None

    # mutation -------------------------------------------------------------
    def add(self, x):
        if x not in self._d:
            self._d[x] = None
            self._order = None

    def update(self, *its):
        for it in its:
            for x in it:
                if x not in self._d:
                    self._d[x] = None
                    self._order = None

    def discard(self, x):
        if x in self._d:
            del self._d[x]
            self._order = None

    def remove(self, x):
        del self._d[x]
        self._order = None

    def clear(self):
        self._d.clear()
        self._order = None

    def copy(self):
        return SimSet(self._d)

    # queries --------------------------------------------------------------
    def __contains__(self, x):
        return x in self._d

    def __len__(self):
        return len(self._d)

    def __bool__(self):
        return bool(self._d)

    def __repr__(self):
        return "SimSet(%r)" % (list(self._d),)

    def __eq__(self, other):
        return set(self._d) == set(other)

    def __iter__(self):
        d = self._d
        if not d:
            return iter(())
        str_keyed = False
        for k in d:
            str_keyed = isinstance(k, str)
            break
        if not str_keyed or CTX.sched is None:
            # ints: the real, hash-seed independent CPython order
            return iter(set(d))
        return self._sim_iter()

    def _sim_iter(self):
        ctx = CTX
        ctx.iters += 1
        if self._order is None:
            self._order = []
            self._rest = list(self._d)
        order = self._order
        i = 0
        while True:
            if i < len(order):
                yield order[i]
                i += 1
                continue
            rest = self._rest
            if not rest:
                return
            n = len(rest)
            mode = ctx.mode
            if n == 1 or mode == "insertion":
                j = 0
            elif mode == "uniform":
                j = ctx.sched.choose(n, "set")
            elif mode == "reverse":
                j = n - 1
            else:  # sparse: mostly insertion order, occasionally a random pick
                j = ctx.sched.choose(n, "set") if ctx.sched.choose(8, "set?") == 7 else 0
            if j:
                ctx.permuted += 1
            order.append(rest.pop(j))


def install():
    import sys
    import hopcroftkarp
    hopcroftkarp.set = SimSet
    # also own explicit `set(...)` constructions a change might add to persim.bottleneck itself
    # (set literals / comprehensions cannot be reached this way; the real-hash-seed phase covers those)
    m = sys.modules.get("persim.bottleneck")
    if m is not None:
        m.set = SimSet


def uninstall():
    import sys
    import hopcroftkarp
    if "set" in hopcroftkarp.__dict__:
        del hopcroftkarp.__dict__["set"]
    m = sys.modules.get("persim.bottleneck")
    if m is not None and m.__dict__.get("set") is SimSet:
        del m.__dict__["set"]


class order_scope(object):
    """with order_scope(sched, mode): persim.bottleneck(...)"""

    def __init__(self, sched, mode="uniform"):
        self.sched = sched
        self.mode = mode

    def __enter__(self):
        install()
        self.prev = (CTX.sched, CTX.mode)
        CTX.sched = self.sched
        CTX.mode = self.mode
        return CTX

    def __exit__(self, *a):
        CTX.sched, CTX.mode = self.prev
        return False
