"""Pristine zygote: a process forked from the check's parent right after persim was
imported and before anything ran.  On request it forks a child that serves one
connection.  Used for

* isolated, persistent "loky-like" workers of SimParallel (module globals and
  argument memory are genuinely per process, arguments/results cross a pickle
  boundary, the scheduler serialises dispatch and completion), and
* the pristine reference of C19 ("this call executed alone in a fresh process").

Protocol on each connection (length-prefixed cloudpickle frames):
    ("call", func, args, kwargs)  ->  ("ok", result) | ("err", type_name, text)
    ("eval", source, env)         ->  same; runs `source` with env, returns env["result"]
    ("quit",)
"""
import atexit
import os
import signal
import socket
import struct
import sys
import tempfile
import traceback

import cloudpickle

_STATE = {"path": None, "pid": None, "dir": None}


def _send(sock, obj):
    data = cloudpickle.dumps(obj)
    sock.sendall(struct.pack("<Q", len(data)) + data)


def _recv(sock):
    hdr = b""
    while len(hdr) < 8:
        chunk = sock.recv(8 - len(hdr))
        if not chunk:
            raise EOFError()
        hdr += chunk
    (n,) = struct.unpack("<Q", hdr)
    buf = bytearray()
    while len(buf) < n:
        chunk = sock.recv(min(1 << 20, n - len(buf)))
        if not chunk:
            raise EOFError()
        buf += chunk
    import pickle
    return pickle.loads(bytes(buf))


def _serve(conn):
    """Child of the zygote: one worker / one reference evaluator."""
    import warnings
    warnings.filterwarnings("ignore", category=SyntaxWarning)
    while True:
        try:
            msg = _recv(conn)
        except EOFError:
            break
        if msg[0] == "quit":
            break
        try:
            if msg[0] == "call":
                _, func, args, kwargs = msg
                res = ("ok", func(*args, **kwargs))
            elif msg[0] == "eval":
                _, source, env = msg
                env = dict(env)
                exec(source, env)
                res = ("ok", env.get("result"))
            else:
                res = ("err", "ProtocolError", repr(msg[0]))
        except BaseException as e:  # report everything to the scheduler side
            res = ("err", type(e).__name__, "%s\n%s" % (e, traceback.format_exc()[-1500:]))
        try:
            _send(conn, res)
        except Exception as e:
            try:
                _send(conn, ("err", "PicklingError", "result not picklable: %r" % (e,)))
            except Exception:
                break
    os._exit(0)


def _zygote_main(listener):
    signal.signal(signal.SIGCHLD, signal.SIG_IGN)       # auto-reap workers
    signal.signal(signal.SIGINT, signal.SIG_IGN)
    ppid = os.getppid()
    listener.settimeout(2.0)
    while True:
        try:
            conn, _ = listener.accept()
        except socket.timeout:
            if os.getppid() != ppid:                     # parent gone
                os._exit(0)
            continue
        except OSError:
            os._exit(0)
        pid = os.fork()
        if pid == 0:
            listener.close()
            conn.settimeout(None)
            _serve(conn)
            os._exit(0)
        conn.close()


def start():
    """Fork the zygote (idempotent).  Call before anything of persim has run."""
    if _STATE["pid"]:
        return _STATE["path"]
    d = tempfile.mkdtemp(prefix="persim-zyg-")
    path = os.path.join(d, "z.sock")
    listener = socket.socket(socket.AF_UNIX, socket.SOCK_STREAM)
    listener.bind(path)
    listener.listen(256)
    pid = os.fork()
    if pid == 0:
        try:
            _zygote_main(listener)
        finally:
            os._exit(0)
    listener.close()
    _STATE.update(path=path, pid=pid, dir=d)
    os.environ["PERSIM_VERIF_ZYGOTE"] = path
    atexit.register(stop, os.getpid())
    return path


def stop(owner_pid=None):
    if owner_pid is not None and owner_pid != os.getpid():
        return                                            # forked pool workers must not kill it
    if _STATE["pid"]:
        try:
            os.kill(_STATE["pid"], signal.SIGTERM)
            os.waitpid(_STATE["pid"], 0)
        except Exception:
            pass
        try:
            os.unlink(_STATE["path"])
            os.rmdir(_STATE["dir"])
        except Exception:
            pass
        _STATE.update(path=None, pid=None, dir=None)


class Child(object):
    """A process forked from the pristine zygote, serving this connection."""

    def __init__(self):
        path = _STATE["path"] or os.environ.get("PERSIM_VERIF_ZYGOTE")
        if not path:
            raise RuntimeError("zygote not started")
        self.sock = socket.socket(socket.AF_UNIX, socket.SOCK_STREAM)
        self.sock.connect(path)
        self.calls = 0

    def send_call(self, func, args, kwargs):
        _send(self.sock, ("call", func, args, kwargs))
        self.calls += 1

    def send_eval(self, source, env):
        _send(self.sock, ("eval", source, env))
        self.calls += 1

    def recv(self):
        return _recv(self.sock)

    def close(self):
        try:
            _send(self.sock, ("quit",))
        except Exception:
            pass
        try:
            self.sock.close()
        except Exception:
            pass
