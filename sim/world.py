"""World reset: every case starts from the same state of the code under test.

persim keeps no module-level mutable state today, but a change to it may add some
(a cache, a memo, a scratch buffer).  Results that depend on what ran earlier in
the process are exactly what several properties forbid, and a case must stay a
pure function of (case file, code).  So before each case the persim submodules
the property exercises are re-executed with importlib.reload (fresh module
globals, fresh caches); the harness always reaches them through
sys.modules['persim.<name>'] at call time.
"""
import importlib
import sys
import warnings

ORDER = ["persim.bottleneck", "persim.wasserstein", "persim.heat", "persim.sliced_wasserstein",
         "persim.persistent_entropy", "persim.gromov_hausdorff", "persim.images_kernels", "persim.images_weights",
         "persim.images", "persim.landscapes.base", "persim.landscapes.auxiliary", "persim.landscapes.approximate",
         "persim.landscapes.exact", "persim.landscapes.tools", "persim.landscapes.transformer",
         "persim.landscapes.visuals", "persim.landscapes", "persim.visuals"]


def reload_persim(names=None):
    import persim  # noqa: F401
    with warnings.catch_warnings():
        warnings.simplefilter("ignore")
        for n in ORDER:
            if names is not None and n not in names:
                continue
            m = sys.modules.get(n)
            if m is None:
                importlib.import_module(n)
            else:
                importlib.reload(m)
