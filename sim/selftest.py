"""Self-tests of the machinery: smoke and determinism (DESIGN.md 6.1, appendix C)."""
import json
import os
import subprocess
import sys

VERIF = os.path.dirname(os.path.dirname(os.path.abspath(__file__)))
ALL = ["C01", "C05", "C06", "C07", "C09", "C11", "C12", "C17", "C18", "C19", "C20"]


def digests(pids, n, seed, tier="quick"):
    from sim import runner
    out = {}
    for pid in pids:
        mod = runner.load_prop(pid)
        runner.ensure_zygote(mod)
        ds = []
        for idx in range(n):
            case = runner.make_case(mod, tier, seed, idx)
            res = runner.execute(mod, case)
            ds.append([res["status"], res["sched"].trace_digest(),
                       (res.get("violation") or {}).get("signature")])
        out[pid] = ds
    return out


def determinism(pids, n, seed):
    pids = pids or ALL
    a = digests(pids, n, seed)
    b = digests(pids, n, seed)
    bad = 0
    for pid in pids:
        if a[pid] != b[pid]:
            bad += 1
            print("NONDETERMINISTIC in-process: %s" % pid)
    # fresh interpreters, with other hash seeds for the *harness*
    for hs in ("1", "12345"):
        env = dict(os.environ)
        env.pop("_PERSIM_VERIF_CHILD", None)
        env["VERIF_HARNESS_HASHSEED"] = hs
        r = subprocess.run([sys.executable, os.path.join(VERIF, "check.py"), "_digests",
                            "--props", ",".join(pids), "--n", str(n), "--seed", str(seed)],
                           capture_output=True, text=True, env=env, timeout=3600)
        try:
            c = json.loads(r.stdout.strip().splitlines()[-1])
        except Exception:
            print("HARNESS-ERROR digest child failed: %s" % (r.stdout + r.stderr)[-2000:])
            return 2
        for pid in pids:
            if c[pid] != a[pid]:
                bad += 1
                k = next(i for i, (x, y) in enumerate(zip(c[pid], a[pid])) if x != y)
                print("NONDETERMINISTIC across interpreters (harness PYTHONHASHSEED=%s): %s first at run %d"
                      % (hs, pid, k))
    print("determinism self-test: %d properties x %d runs x (2 in-process + 2 fresh interpreters): %s"
          % (len(pids), n, "OK" if not bad else "%d FAILURES" % bad))
    return 2 if bad else 0


def models():
    """Cross-validate the reference models against definition-level enumeration."""
    import random
    import numpy as np
    from models import ref_matching as rm, ref_mgh
    rng = random.Random(20261004)
    bad = 0
    for _ in range(300):
        S = np.array([[b, b + rng.randint(0, 6) * 0.5] for b in (rng.randint(0, 6) * 0.5 for _ in range(rng.randint(0, 4)))]).reshape(-1, 2)
        T = np.array([[b, b + rng.randint(0, 6) * 0.5] for b in (rng.randint(0, 6) * 0.5 for _ in range(rng.randint(0, 4)))]).reshape(-1, 2)
        if abs(rm.enum_minmax(S, T) - rm.ref_bottleneck(S, T)) > 1e-12:
            bad += 1
        if abs(rm.enum_minsum(S, T) - rm.ref_wasserstein(S, T)) > 1e-9:
            bad += 1
    for _ in range(200):
        def g(n):
            e = [(i, rng.randrange(i)) for i in range(1, n)] + [(i, j) for i in range(n) for j in range(i) if rng.random() < 0.2]
            return ref_mgh.distance_matrix(n, e).astype(int)
        a, b = g(rng.randint(1, 5)), g(rng.randint(1, 5))
        if ref_mgh.min_distortion(a, b) != ref_mgh.min_distortion_flat(a, b):
            bad += 1
    print("reference-model self-test: %s" % ("OK" if not bad else "%d DISAGREEMENTS" % bad))
    return 2 if bad else 0


def smoke():
    import persim  # noqa: F401
    import hopcroftkarp  # noqa: F401
    import hypothesis  # noqa: F401
    rc = models()
    if rc:
        return rc
    rc = determinism(None, 5, 0)
    print("smoke: persim from %s; determinism rc=%d" % (os.path.dirname(persim.__file__), rc))
    return rc
