"""Entropy seam: operating-system randomness behind the simulator.

Code that draws from os.urandom / secrets / random.SystemRandom / an unseeded
numpy Generator (np.random.default_rng(), SeedSequence()) is not reproducible
under np.random.seed.  In the simulated world these sources return a
deterministic stream chosen by the run (a different stream in the history, in
the pristine zygote, and in each replay-independent reference), so a routine
that consults them gives *reproducibly different* answers in the history and in
the reference - a replayable violation instead of an unreplayable flake.

Installed from /verif by rebinding module attributes (os.urandom,
random._urandom, numpy.random.bit_generator.randbits, secrets.randbits ...); no
repository file is edited.
"""
import hashlib
import os
import random
import secrets

_real = {}
_st = {"key": b"boot", "ctr": 0, "draws": 0}


def _bytes(n):
    out = b""
    while len(out) < n:
        out += hashlib.sha256(_st["key"] + _st["ctr"].to_bytes(8, "big")).digest()
        _st["ctr"] += 1
    _st["draws"] += 1
    return out[:n]


def _urandom(n):
    return _bytes(int(n))


def _randbits(k):
    k = int(k)
    if k <= 0:
        return 0
    nb = (k + 7) // 8
    return int.from_bytes(_bytes(nb), "big") >> (nb * 8 - k)


def install(key="boot"):
    """Idempotent.  Call before persim is imported so that import-time draws are owned too."""
    if not _real:
        _real["os.urandom"] = os.urandom
        _real["random._urandom"] = random._urandom
        _real["secrets.randbits"] = secrets.randbits
        _real["secrets.token_bytes"] = secrets.token_bytes
        os.urandom = _urandom
        random._urandom = _urandom
        secrets.randbits = _randbits
        secrets.token_bytes = lambda n=None: _bytes(32 if n is None else n)
        try:
            import numpy.random.bit_generator as bg
            _real["bg.randbits"] = bg.randbits
            bg.randbits = _randbits
        except Exception:
            pass
    set_stream(key)


def set_stream(key):
    _st["key"] = hashlib.sha256(repr(key).encode()).digest()
    _st["ctr"] = 0
    _st["draws"] = 0


def draws():
    return _st["draws"]
