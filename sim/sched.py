"""Scheduler with a decision tape: the single source of every simulated choice.

One `Sched` object exists per executed case.  Every nondeterministic decision
taken *inside* the run (iteration order of a simulated set, a simulated RNG
draw, which worker runs next, whether the environment actor fires, ...) is
`sched.choose(n, label)`.

* record mode  - values come from one `random.Random(seed)`; the values are
                 appended to `tape`.
* replay mode  - values come from the given tape (taken modulo n); when the
                 tape is exhausted the answer is 0.  All encodings in the seams
                 are chosen so that 0 is the boring decision, which is what
                 makes tape shrinking converge.

Nothing here reads a clock, and logging never draws from the PRNG.
"""
import hashlib
import random


class Violation(Exception):
    """A property clause failed on the code under test."""

    def __init__(self, clause, site, discr, detail, op_index=None):
        super().__init__("%s @%s [%s]: %s" % (clause, site, discr, detail))
        self.clause = clause
        self.site = site
        self.discr = discr
        self.detail = detail
        self.op_index = op_index

    @property
    def signature(self):
        return [str(self.site), str(self.clause), str(self.discr)]

    def to_json(self):
        return {
            "clause": self.clause,
            "signature": self.signature,
            "detail": str(self.detail)[:2000],
            "op_index": self.op_index,
        }


class InvalidCase(Exception):
    """The case (usually a shrink candidate) is structurally not executable."""


class HarnessError(Exception):
    """My own machinery misbehaved; never reported as a violation."""


class CaseTimeout(BaseException):
    """Raised by the watchdog alarm inside the code under test."""


class Sched:
    __slots__ = ("rng", "tape", "pos", "replay", "n_decisions", "n_nonzero",
                 "log", "log_on", "_h", "counters")

    def __init__(self, seed=0, tape=None, log_on=False):
        self.replay = tape is not None
        self.tape = list(tape) if tape is not None else []
        self.rng = None if self.replay else random.Random(seed)
        self.pos = 0
        self.n_decisions = 0
        self.n_nonzero = 0
        self.log = []
        self.log_on = log_on
        self._h = hashlib.blake2b(digest_size=8)
        self.counters = {}

    # -- decisions ---------------------------------------------------------
    def choose(self, n, label=""):
        """Return an int in [0, n).  n <= 1 costs nothing and records nothing."""
        if n <= 1:
            return 0
        if self.replay:
            if self.pos < len(self.tape):
                v = self.tape[self.pos] % n
            else:
                v = 0
            self.pos += 1
        else:
            v = int(self.rng.random() * n)
            self.tape.append(v)
        self.n_decisions += 1
        if v:
            self.n_nonzero += 1
        if self.log_on:
            self.log.append("%s:%d/%d" % (label, v, n))
        return v

    def flip(self, k, label=""):
        """True with probability 1/k (one tape entry; 0 => False)."""
        return self.choose(k, label) == k - 1 if k > 1 else True

    def permutation(self, n, label="perm"):
        """A permutation of range(n) by repeated selection; all-zero => identity."""
        rest = list(range(n))
        out = []
        while rest:
            out.append(rest.pop(self.choose(len(rest), label)))
        return out

    # -- bookkeeping -------------------------------------------------------
    def count(self, key, k=1):
        c = self.counters
        c[key] = c.get(key, 0) + k

    def note(self, text):
        """Append to the event log / trace digest (never draws, never reads a clock)."""
        self._h.update(text.encode("utf-8", "replace"))
        self._h.update(b"\n")
        if self.log_on:
            self.log.append(text)

    def trace_digest(self):
        h = self._h.copy()
        h.update(repr(self.tape if not self.replay else self.tape[: self.pos]).encode())
        return h.hexdigest()


def derive_seed(*parts):
    """Stable 63-bit integer from arbitrary parts (independent of PYTHONHASHSEED)."""
    h = hashlib.sha256(("|".join(str(p) for p in parts)).encode()).digest()
    return int.from_bytes(h[:8], "big") >> 1


def interleave(sched, ops, key="client", mode="scheduler"):
    """Yield (original_index, op) in an order that preserves every client's own order.
    mode 'as-listed' keeps the generated order; mode 'scheduler' lets the scheduler pick which
    client moves next (one tape entry per step; all-zero tape => clients run one after the other)."""
    if mode != "scheduler":
        for i, op in enumerate(ops):
            yield i, op
        return
    queues, order = {}, []
    for i, op in enumerate(ops):
        k = op.get(key, 0)
        if k not in queues:
            queues[k] = []
            order.append(k)
        queues[k].append((i, op))
    while order:
        k = order[sched.choose(len(order), "interleave")]
        yield queues[k].pop(0)
        if not queues[k]:
            order.remove(k)
