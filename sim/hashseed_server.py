"""Evaluator run in a fresh interpreter under a *real* PYTHONHASHSEED, with the
unpatched hopcroftkarp and the repository's code.  JSON-lines protocol on
stdin/stdout:  {"a": pts, "b": pts, "ra": rep, "rb": rep, "matching": bool}
-> {"d": float.hex, "m": rows or null, "warn": n, "err": str or null}
"""
import json
import os
import sys
import warnings

sys.path.insert(0, os.environ.get("VERIF_REPO", "/repo"))
sys.path.insert(0, os.path.dirname(os.path.dirname(os.path.abspath(__file__))))
warnings.filterwarnings("ignore", category=SyntaxWarning)

import numpy as np  # noqa: E402

from props.dgmgen import materialize  # noqa: E402
import persim  # noqa: E402,F401

import importlib  # noqa: E402


def main():
    out = sys.stdout
    out.write(json.dumps({"ready": True, "hashseed": os.environ.get("PYTHONHASHSEED"),
                          "probe": [hash("0") & 0xffff, hash("1") & 0xffff]}) + "\n")
    out.flush()
    for line in sys.stdin:
        line = line.strip()
        if not line:
            continue
        q = json.loads(line)
        if q.get("reset"):
            importlib.reload(sys.modules["persim.bottleneck"])
            out.write(json.dumps({"reset": True, "err": None}) + "\n")
            out.flush()
            continue
        bott = sys.modules["persim.bottleneck"].bottleneck
        a = materialize(q["a"], q.get("ra", "f64"))
        b = materialize(q["b"], q.get("rb", "f64"))
        res = {"d": None, "m": None, "warn": 0, "err": None}
        try:
            with warnings.catch_warnings(record=True) as w:
                warnings.simplefilter("always")
                r = bott(a, b, matching=bool(q.get("matching")))
            res["warn"] = len(w)
            if q.get("matching"):
                d, m = r
                res["d"] = float(d).hex()
                res["m"] = np.asarray(m, dtype=float).reshape(-1, 3).tolist() if np.size(m) else []
            else:
                res["d"] = float(r).hex()
        except Exception as e:  # reported to the caller, which decides
            res["err"] = "%s: %s" % (type(e).__name__, e)
        out.write(json.dumps(res) + "\n")
        out.flush()


if __name__ == "__main__":
    main()
