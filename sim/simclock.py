"""Clock seam: wall-clock and monotonic time as seen by persim's modules.

persim reads no clock today.  A change may start to (a time-to-live on a cache, a seed taken from the time, a
"recompute at most once per second" guard), and results that depend on when a call is made are exactly what the
purity / repeatability properties forbid.  In the simulated world every clock a persim module can reach through
its own namespace (`time` the module, or names imported from it, `datetime` likewise is left alone) is a simulated
clock: it starts at a case-derived epoch and every read advances it by a scheduler-chosen jump from
{0, 1 microsecond, 1 millisecond, 1 s, 1 h, 30 days} - clock jumps and stalls - and `sleep` advances it without
sleeping.  One seed, one sequence of times.  Installed after the world reset by rebinding names in the persim
modules (no repository file is edited); the harness itself keeps the real clock.
"""
import sys
import time as _time

JUMPS = (0.0, 1e-6, 1e-3, 1.0, 3600.0, 30 * 86400.0)
_FUNCS = ("time", "monotonic", "perf_counter", "process_time", "time_ns", "monotonic_ns", "perf_counter_ns", "sleep")
STATS = {"reads": 0}


class Clock(object):
    def __init__(self, sched, seed):
        self.sched = sched
        self.now = 1.7e9 + float(seed % 100000)

    def read(self):
        STATS["reads"] += 1
        j = self.sched.choose(len(JUMPS), "clock.jump") if self.sched is not None else 0
        self.now += JUMPS[j]
        return self.now

    def fn(self, name):
        if name == "sleep":
            def sleep(d):
                self.now += max(0.0, float(d))
            return sleep
        if name.endswith("_ns"):
            return lambda: int(self.read() * 1e9)
        return self.read


class TimeView(object):
    def __init__(self, clock):
        object.__setattr__(self, "_clock", clock)

    def __getattr__(self, name):
        if name in _FUNCS:
            return object.__getattribute__(self, "_clock").fn(name)
        return getattr(_time, name)


def install(sched, seed):
    STATS["reads"] = 0
    clock = Clock(sched, seed)
    view = TimeView(clock)
    for name, mod in list(sys.modules.items()):
        if mod is None or not (name == "persim" or name.startswith("persim.")):
            continue
        d = getattr(mod, "__dict__", {})
        for attr, val in list(d.items()):
            try:
                if val is _time or isinstance(val, TimeView):
                    setattr(mod, attr, view)
                elif attr in _FUNCS and getattr(val, "__module__", None) == "time" and val is getattr(_time, attr, None):
                    setattr(mod, attr, clock.fn(attr))
            except Exception:
                pass
    return clock
