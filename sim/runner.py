"""Batch driver: seeded generation, pooled execution, shrinking, replay files,
known findings, evidence.  One property module is run per invocation.

Property module interface (props/cXX.py):

    ID, TITLE, RULE, ASSUMPTIONS, REAL_COMPONENTS, STUB_COMPONENTS, PLAN
    gen_case(rng, tier) -> dict            JSON-serialisable case (no tape)
    run_case(case, sched) -> dict          stats; raises Violation / InvalidCase
    shrink_candidates(case) -> iterator    optional; simpler cases first
    extra_phase(ctx) -> (stats, viols)     optional (e.g. real hash-seed sweep)
    CASE_TIMEOUT_S                         optional per-case wall budget
"""
import concurrent.futures as cf
import copy
import faulthandler
import importlib
import json
import multiprocessing as mp
import os
import random
import signal
import subprocess
import sys
import time
import traceback

from .sched import (CaseTimeout, HarnessError, InvalidCase, Sched, Violation,
                    derive_seed)

VERIF = os.path.dirname(os.path.dirname(os.path.abspath(__file__)))
REPLAY_DIR = os.path.join(VERIF, "replays")
EVID_DIR = os.path.join(VERIF, "evidence")
KNOWN_FILE = os.environ.get("VERIF_KNOWN_FILE") or os.path.join(VERIF, "known_findings.json")


def load_prop(pid):
    return importlib.import_module("props." + pid.lower())


def ensure_zygote(mod):
    """Fork the pristine zygote before anything of persim has run (only for the
    properties that need isolated workers / a pristine reference)."""
    if getattr(mod, "NEEDS_ZYGOTE", False):
        from . import zygote
        # the zygote must not inherit a seam that changes results: in a process that already ran another property
        # (the determinism self-test does) the matcher may still see SimSet, whose order without a scheduler differs
        # from a real set's under some hash seeds
        from . import simset
        simset.uninstall()
        zygote.start()


# --------------------------------------------------------------------------
# executing one case
# --------------------------------------------------------------------------
def _alarm(signum, frame):
    raise CaseTimeout()


def execute(mod, case, log_on=False):
    """Pure function of (case, code under $VERIF_REPO).  Returns a dict:
    {status: ok|violation|invalid|harness, stats, violation, sched}"""
    sched = Sched(seed=case.get("sched_seed", 0), tape=case.get("tape"), log_on=log_on)
    budget = float(getattr(mod, "CASE_TIMEOUT_S", 60.0))
    try:
        # the watchdog is the one wall-clock quantity in the harness: scale it with the machine's load so that a
        # busy sandbox does not turn a slow case into a "hang"
        budget *= max(1.0, os.getloadavg()[0] / float(os.cpu_count() or 1))
    except OSError:
        pass
    in_main = (mp.current_process() is not None) and \
        (__import__("threading").current_thread() is __import__("threading").main_thread())
    if in_main:
        old = signal.signal(signal.SIGALRM, _alarm)
        signal.setitimer(signal.ITIMER_REAL, budget)
    try:
        try:
            from . import entropy
            entropy.set_stream(("case", case.get("sched_seed", 0)))
            rw = getattr(mod, "reset_world", None)
            if rw:
                rw()
            # id() behind a seam (after the modules were re-executed): the mode is part of the case
            from . import simid
            id_mode = (case.get("config") or {}).get("id_mode") or ("unique", "reuse", "reuse")[case.get("sched_seed", 0) % 3]
            sid = simid.install(id_mode)
            from . import simempty
            simempty.install()            # uninitialised memory behind a seam
            from . import simclock
            simclock.install(sched, case.get("sched_seed", 0))      # clocks behind a seam (none is read today)
            # NumPy's floating-point error state is process-global state other code moves (np.seterr / np.errstate):
            # "ignore" and "warn" (the default) are both legal worlds; the mode is part of the case
            import numpy as _np
            err_mode = (case.get("config") or {}).get("np_err") or ("ignore", "warn")[(case.get("sched_seed", 0) >> 5) & 1]
            if err_mode not in ("ignore", "warn"):
                raise InvalidCase("np_err")
            _np.seterr(all=err_mode)
            sched.count("np_err:" + err_mode)
            # so are NumPy's print options (np.set_printoptions): a notebook that shortens its output must not change results
            pr_mode = (case.get("config") or {}).get("np_print") or ("default", "default", "terse")[(case.get("sched_seed", 0) >> 7) % 3]
            if pr_mode not in ("default", "terse"):
                raise InvalidCase("np_print")
            _np.set_printoptions(edgeitems=3, threshold=1000, precision=8, linewidth=75, suppress=False, floatmode="maxprec")
            if pr_mode == "terse":
                _np.set_printoptions(threshold=5, edgeitems=1, precision=2, suppress=True, linewidth=40)
            sched.count("np_print:" + pr_mode)
            # ... and the thread's decimal context (decimal.getcontext().prec lowered by a money-handling caller)
            import decimal as _decimal
            dec_mode = (case.get("config") or {}).get("decimal_prec") or (28, 28, 4)[(case.get("sched_seed", 0) >> 9) % 3]
            if dec_mode not in (28, 4):
                raise InvalidCase("decimal_prec")
            _decimal.setcontext(_decimal.Context(prec=dec_mode))
            sched.count("decimal_prec:%d" % dec_mode)
            # ... and scikit-learn's global configuration (working_memory decides how pairwise computations are chunked)
            try:
                import sklearn as _sklearn
                sk_mode = (case.get("config") or {}).get("sklearn_wm") or ("default", "default", "tiny")[(case.get("sched_seed", 0) >> 11) % 3]
                if sk_mode not in ("default", "tiny"):
                    raise InvalidCase("sklearn_wm")
                # tiny: a few hundred bytes to a few kilobytes, i.e. chunks of one to a few dozen rows for these sizes
                tiny = (0.0005, 0.002, 0.01)[(case.get("sched_seed", 0) >> 13) % 3]
                _sklearn.set_config(working_memory=1024 if sk_mode == "default" else tiny)
                sched.count("sklearn_working_memory:" + sk_mode)
            except ImportError:
                pass
            # the property module works on a private copy: whatever the code under test does to data handed to it,
            # the case (= the replay file) stays what was generated, so a re-run is the same experiment
            stats = mod.run_case(copy.deepcopy(case), sched)
            if simclock.STATS["reads"]:
                sched.count("clock_reads_by_persim", simclock.STATS["reads"])
            if simempty.STATS["empty_calls"]:
                sched.count("np_empty_calls_by_persim", simempty.STATS["empty_calls"])
            if sid.calls:
                sched.count("id_calls_by_persim", sid.calls)
                sched.count("id_values_reused", sid.reused)
            return {"status": "ok", "stats": stats or {}, "sched": sched}
        finally:
            if in_main:
                signal.setitimer(signal.ITIMER_REAL, 0)
    except Violation as v:
        return {"status": "violation", "violation": v.to_json(), "sched": sched}
    except InvalidCase as e:
        return {"status": "invalid", "detail": str(e), "sched": sched}
    except CaseTimeout:
        v = Violation("returns-within-budget", "case", "hang",
                      "case did not finish within %.0f s" % budget)
        return {"status": "violation", "violation": v.to_json(), "sched": sched}
    except Exception:
        return {"status": "harness", "detail": traceback.format_exc(), "sched": sched}
    finally:
        if in_main:
            signal.setitimer(signal.ITIMER_REAL, 0)
            signal.signal(signal.SIGALRM, old)
        cleanup = getattr(mod, "cleanup", None)
        if cleanup:
            try:
                cleanup()
            except Exception:
                pass


def make_case(mod, tier, seed, idx):
    rng = random.Random(derive_seed(seed, mod.ID, tier, idx, "gen"))
    case = mod.gen_case(rng, tier)
    case["format"] = 1
    case["property"] = mod.ID
    case["sched_seed"] = derive_seed(seed, mod.ID, tier, idx, "sched")
    case["origin"] = {"verif_seed": seed, "run_index": idx, "tier": tier}
    return case


# --------------------------------------------------------------------------
# statistics
# --------------------------------------------------------------------------
class Agg:
    def __init__(self):
        self.cases = 0
        self.evals = 0
        self.decisions = 0
        self.nonzero = 0
        self.ops = 0
        self.keys = set()
        self.nontrivial = set()
        self.traces = set()
        self.probes = {}
        self.faults = {}
        self.samples = []
        self.viol_count = 0
        self.invalid = 0

    def add_case(self, case, res):
        st = res.get("stats", {})
        sched = res["sched"]
        self.cases += 1
        self.evals += int(st.get("evals", 1))
        self.ops += int(st.get("ops", 0))
        self.decisions += sched.n_decisions
        self.nonzero += sched.n_nonzero
        key = st.get("key")
        if key is not None:
            self.keys.add(key)
            if st.get("nontrivial"):
                self.nontrivial.add(key)
        self.traces.add(sched.trace_digest())
        for k, v in (st.get("probes") or {}).items():
            if v:
                self.probes[k] = self.probes.get(k, 0) + int(v)
        for k, v in (st.get("faults") or {}).items():
            if v:
                self.faults[k] = self.faults.get(k, 0) + int(v)
        for k, v in sched.counters.items():
            self.faults[k] = self.faults.get(k, 0) + int(v)

    def merge(self, o):
        self.cases += o.cases
        self.evals += o.evals
        self.decisions += o.decisions
        self.nonzero += o.nonzero
        self.ops += o.ops
        self.keys |= o.keys
        self.nontrivial |= o.nontrivial
        self.traces |= o.traces
        for k, v in o.probes.items():
            self.probes[k] = self.probes.get(k, 0) + v
        for k, v in o.faults.items():
            self.faults[k] = self.faults.get(k, 0) + v
        if len(self.samples) < 3:
            self.samples.extend(o.samples[: 3 - len(self.samples)])
        self.viol_count += o.viol_count
        self.invalid += o.invalid


# --------------------------------------------------------------------------
# pool worker
# --------------------------------------------------------------------------
def _trim(case, limit=1500):
    c = {k: v for k, v in case.items() if k not in ("tape",)}
    s = json.dumps(c, sort_keys=True, default=str)
    if len(s) > limit:
        return {"property": case.get("property"), "origin": case.get("origin"),
                "config": case.get("config"), "truncated_json": s[:limit] + "..."}
    return c


def chunk_worker(pid, tier, seed, lo, hi, deadline, repo):
    """Runs cases lo..hi-1.  Returns (Agg, violations, harness_errors)."""
    faulthandler.enable()
    mod = load_prop(pid)
    agg = Agg()
    viols = []
    harness = []
    seen_sig = {}
    for idx in range(lo, hi):
        if deadline and time.time() > deadline:
            break
        case = make_case(mod, tier, seed, idx)
        res = execute(mod, case)
        if res["status"] == "ok":
            agg.add_case(case, res)
            if len(agg.samples) < 2:
                agg.samples.append(_trim(case))
        elif res["status"] == "violation":
            agg.add_case(case, res)
            agg.viol_count += 1
            sig = tuple(res["violation"]["signature"])
            seen_sig[sig] = seen_sig.get(sig, 0) + 1
            if seen_sig[sig] <= 2:
                # freeze the decisions into a tape and confirm determinism
                case2 = copy.deepcopy(case)
                case2["tape"] = list(res["sched"].tape)
                res2 = execute(mod, case2)
                if sig[-1] == "hang" and res2["status"] == "ok" and execute(mod, case2)["status"] == "ok":
                    # a wall-clock overrun that does not repeat (twice) is load, not a hang and not nondeterminism
                    agg.viol_count -= 1
                    agg.slow_cases = getattr(agg, "slow_cases", 0) + 1
                    print("NOTE property=%s case idx %d exceeded the wall-clock budget once and finished normally twice "
                          "afterwards (machine load); not counted" % (pid, idx), file=sys.stderr)
                elif res2["status"] != "violation" or \
                        res2["violation"]["signature"] != res["violation"]["signature"]:
                    # the same case, same tape, same process gave another outcome: either my harness is not
                    # deterministic or the code under test consults something no seam owns (e.g. id()).
                    harness.append("UNSTABLE: case idx %d gave %s then %s" % (
                        idx, res["violation"], res2.get("violation") or res2["status"]))
                else:
                    case2["violation"] = res["violation"]
                    viols.append(case2)
        elif res["status"] == "invalid":
            # my generator left the property's domain: the case is skipped (nothing is concluded from it); only a
            # generator that does so for more than 0.5 % of the cases is reported as a harness error (at the end)
            agg.invalid += 1
            print("NOTE property=%s generated case idx %d is outside the property's domain and was skipped: %s"
                  % (pid, idx, res["detail"]), file=sys.stderr)
        else:
            harness.append("idx %d: %s" % (idx, res["detail"]))
        if len(harness) > 5:
            break
    return agg, viols, harness


# --------------------------------------------------------------------------
# shrinking
# --------------------------------------------------------------------------
def _fails_same(mod, case, sig):
    res = execute(mod, case)
    return res["status"] == "violation" and res["violation"]["signature"] == sig, res


def shrink_case(mod, case, budget_s=45.0, max_steps=3000):
    from . import shrink as shr
    sig = case["violation"]["signature"]
    t0 = time.time()
    steps = 0
    best = copy.deepcopy(case)
    gen = getattr(mod, "shrink_candidates", None) or shr.generic_candidates
    improved = True
    while improved and time.time() - t0 < budget_s and steps < max_steps:
        improved = False
        for cand in shr.with_tape_candidates(best, gen):
            if time.time() - t0 > budget_s or steps >= max_steps:
                break
            steps += 1
            cand.pop("violation", None)
            ok, res = _fails_same(mod, cand, sig)
            if ok:
                cand["violation"] = res["violation"]
                # keep the tape actually consumed (drops dead suffix)
                cand["tape"] = list(res["sched"].tape[: res["sched"].pos])
                best = cand
                improved = True
                break
    best["shrink"] = {"steps": steps, "wall_s": round(time.time() - t0, 2)}
    return best


def shrink_worker(pid, case, budget_s):
    mod = load_prop(pid)
    return shrink_case(mod, case, budget_s=budget_s)


def trace_of(mod, case):
    c = copy.deepcopy(case)
    c.pop("violation", None)
    res = execute(mod, c, log_on=True)
    return res["sched"].log[-400:]


# --------------------------------------------------------------------------
# known findings
# --------------------------------------------------------------------------
def load_known():
    try:
        with open(KNOWN_FILE) as f:
            k = json.load(f)
    except FileNotFoundError:
        return []
    return k.get("known", [])


def match_known(pid, sig, known):
    for e in known:
        if e.get("property") == pid and list(e.get("signature")) == list(sig):
            return e
    return None


# --------------------------------------------------------------------------
# main entry for one property
# --------------------------------------------------------------------------
def run_property(pid, tier, seed, jobs=None, budget_s=None, runs=None, out=sys.stdout):
    mod = load_prop(pid)
    t0 = time.time()
    ensure_zygote(mod)
    plan = dict(mod.PLAN[tier])
    if runs is not None:
        plan["runs"] = runs
    if budget_s is not None:
        plan["budget_s"] = budget_s
    jobs = jobs or min(16, os.cpu_count() or 1)
    total_runs = plan.get("runs")
    budget = plan.get("budget_s")
    chunk = plan.get("chunk", 25)
    deadline = t0 + budget if budget else None
    repo = os.environ.get("VERIF_REPO", "/repo")

    agg = Agg()
    viols = []
    harness = []
    ctx = mp.get_context("fork")
    next_idx = 0
    hard_cap = plan.get("max_runs", 10 ** 9)
    with cf.ProcessPoolExecutor(max_workers=jobs, mp_context=ctx) as pool:
        pending = set()

        def submit_more():
            nonlocal next_idx
            while len(pending) < jobs * 2:
                if total_runs is not None and next_idx >= total_runs:
                    return
                if next_idx >= hard_cap:
                    return
                if deadline and time.time() > deadline:
                    return
                hi = next_idx + chunk
                if total_runs is not None:
                    hi = min(hi, total_runs)
                pending.add(pool.submit(chunk_worker, pid, tier, seed, next_idx, hi,
                                        deadline, repo))
                next_idx = hi

        submit_more()
        try:
            while pending:
                done, _ = cf.wait(pending, timeout=5, return_when=cf.FIRST_COMPLETED)
                for fut in done:
                    pending.discard(fut)
                    a, v, h = fut.result()
                    agg.merge(a)
                    viols.extend(v)
                    harness.extend(h)
                if len(harness) > 20 or len(viols) > 200:
                    for f in pending:
                        f.cancel()
                    deadline = time.time()  # stop submitting
                    total_runs = next_idx
                submit_more()
        except cf.process.BrokenProcessPool as e:
            harness.append("worker process died (see stderr for faulthandler dump): %r" % (e,))

        # optional extra phase (real hash seeds, real joblib control, ...)
        extra = getattr(mod, "extra_phase", None)
        extra_info = {}
        if extra and not harness:
            try:
                ex_stats, ex_viols, ex_harness = extra(
                    {"tier": tier, "seed": seed, "jobs": jobs, "pool": pool, "repo": repo})
                extra_info = ex_stats or {}
                viols.extend(ex_viols or [])
                harness.extend(ex_harness or [])
            except Exception:
                harness.append("extra_phase: " + traceback.format_exc())

        if agg.invalid > max(3, 0.005 * max(agg.cases, 1)):
            harness.append("generator produced %d invalid cases out of %d" % (agg.invalid, agg.cases))
        # ---- report violations ------------------------------------------
        known = load_known()
        by_sig = {}
        for c in viols:
            by_sig.setdefault(tuple(c["violation"]["signature"]), []).append(c)
        reported = []
        exit_code = 0
        os.makedirs(REPLAY_DIR, exist_ok=True)
        shrink_budget = plan.get("shrink_s", 40.0)
        futs = {}
        for sig, cases in sorted(by_sig.items()):
            first = min(cases, key=lambda c: c["origin"]["run_index"])
            by_sig[sig] = [first]
            if first.get("no_shrink"):
                futs[sig] = None
            else:
                try:
                    futs[sig] = pool.submit(shrink_worker, pid, first, shrink_budget)
                except Exception as e:           # e.g. the pool broke earlier: report unshrunk
                    harness.append("could not submit the shrinker: %r" % (e,))
                    futs[sig] = None
        for sig, fut in futs.items():
            first = by_sig[sig][0]
            small = first
            if fut is not None:
                try:
                    small = fut.result(timeout=shrink_budget * 3 + 60)
                except Exception:
                    harness.append("shrinker failed for %s: %s" % (sig, traceback.format_exc()))
            small["original_case"] = {k: first[k] for k in first if k not in ("violation",)} \
                if small is not first and len(json.dumps(first, default=str)) < 20000 else None
            try:
                if not small.get("no_shrink"):
                    small["trace"] = trace_of(mod, small)
            except Exception:
                small["trace"] = []
            # runs against a scratch copy (seeded changes) get their own file names: two of them may run at once
            repo_ = os.path.realpath(os.environ.get("VERIF_REPO", "/repo"))
            tag = "" if repo_ == os.path.realpath("/repo") else "-m%04d" % (derive_seed(repo_) % 10000)
            name = "%s-%d-%d-%s%s.json" % (pid, seed, first["origin"]["run_index"],
                                           derive_seed(*sig) % 100000, tag)
            path = os.path.join(REPLAY_DIR, name)
            os.makedirs(REPLAY_DIR, exist_ok=True)
            with open(path, "w") as f:
                json.dump(small, f, indent=1, sort_keys=True, default=str)
            # verify in a fresh interpreter
            if not small.get("no_shrink"):
                rc = subprocess.run(
                    [sys.executable, os.path.join(VERIF, "check.py"), pid, "--replay", path,
                     "--quiet"], capture_output=True, text=True, timeout=600)
                if rc.returncode != 1:
                    harness.append("fresh-interpreter replay of %s did not reproduce (rc=%d): %s"
                                   % (path, rc.returncode, (rc.stdout + rc.stderr)[-800:]))
                    continue
            k = match_known(pid, sig, known)
            reported.append((sig, path, k, small))

    wall = time.time() - t0
    for sig, path, k, small in reported:
        v = small["violation"]
        if k is not None:
            print("KNOWN-FINDING: property=%s %s :: %s" % (pid, "/".join(sig), k.get("description", "")),
                  file=out)
        else:
            exit_code = 1
            print("VIOLATION property=%s replay=%s" % (pid, path), file=out)
            print("  signature=%s" % "/".join(sig), file=out)
            print("  detail=%s" % v["detail"][:600], file=out)
    if harness:
        # A replay-verified, unlisted violation decides (exit 1) even if other cases were unstable; without one,
        # instability or any exception of my own code is a harness error (exit 2), never a pass.
        if exit_code != 1:
            exit_code = 2
        for h in harness[:10]:
            print("%s property=%s %s" % ("NOTE" if exit_code == 1 and h.startswith("UNSTABLE") else "HARNESS-ERROR",
                                         pid, h), file=out)

    write_evidence(mod, tier, seed, agg, extra_info, wall, reported, jobs)
    print("%s %s: cases=%d evals=%d decisions=%d distinct_nontrivial=%d violations=%d "
          "(unlisted=%d) wall=%.1fs" % (
              pid, tier, agg.cases, agg.evals, agg.decisions, len(agg.nontrivial),
              agg.viol_count, sum(1 for r in reported if r[2] is None), wall), file=out)
    return exit_code


def write_evidence(mod, tier, seed, agg, extra_info, wall, reported, jobs):
    # evidence describes runs against the repository itself; runs against a scratch copy (mutation /
    # seeded-change experiments, VERIF_REPO set elsewhere) must not overwrite it
    repo = os.path.realpath(os.environ.get("VERIF_REPO", "/repo"))
    if repo != os.path.realpath("/repo") and "VERIF_EVIDENCE_DIR" not in os.environ:
        return
    global EVID_DIR
    EVID_DIR = os.environ.get("VERIF_EVIDENCE_DIR", EVID_DIR)
    os.makedirs(EVID_DIR, exist_ok=True)
    cov = {
        "evaluations": int(agg.evals),
        "distinct_nontrivial": int(len(agg.nontrivial)),
        "rule": mod.RULE,
        "samples": agg.samples[:3] or [{"note": "no case completed"}],
        "simulated_runs": int(agg.cases),
        "distinct_cases": int(len(agg.keys)),
        "runs_per_hour": int(agg.cases / max(wall, 1e-9) * 3600),
        "seeds": {"VERIF_SEED": seed, "per_run": "derive_seed(VERIF_SEED, id, tier, run_index)",
                  "run_indices": [0, int(agg.cases)]},
        "logical_time": {"scheduler_decisions": int(agg.decisions),
                         "nonzero_decisions": int(agg.nonzero),
                         "operations": int(agg.ops),
                         "note": "persim has no clock; simulated time is logical (decisions, operations)"},
        "distinct_interleavings": {"count": int(len(agg.traces)),
                                   "measure": "distinct (event log + decision tape) digests"},
        "faults_fired": dict(sorted(agg.faults.items())),
        "probes": dict(sorted(agg.probes.items())),
        "real_components": mod.REAL_COMPONENTS,
        "stub_components": mod.STUB_COMPONENTS,
        "workers": jobs,
        "known_findings_hit": ["/".join(s) for s, p, k, c in reported if k is not None],
        "unlisted_violations": ["/".join(s) for s, p, k, c in reported if k is None],
    }
    cov.update(extra_info or {})
    ev = {
        "property_id": mod.ID,
        "tier": tier,
        "seed": int(seed),
        "level": "exploration",
        "coverage": cov,
        "assumptions": mod.ASSUMPTIONS,
        "wall_s": round(wall, 2),
        "violations": int(sum(1 for r in reported if r[2] is None)),
    }
    tmp = os.path.join(EVID_DIR, mod.ID + ".json.tmp")
    with open(tmp, "w") as f:
        json.dump(ev, f, indent=1, sort_keys=True, default=str)
    os.replace(tmp, os.path.join(EVID_DIR, mod.ID + ".json"))


# --------------------------------------------------------------------------
# replay
# --------------------------------------------------------------------------
def replay_file(pid, path, quiet=False, out=sys.stdout):
    mod = load_prop(pid)
    ensure_zygote(mod)
    with open(path) as f:
        case = json.load(f)
    expect = (case.get("violation") or {}).get("signature")
    c = {k: v for k, v in case.items() if k not in ("violation", "trace", "shrink", "original_case")}
    rp = getattr(mod, "replay_case", None)
    res = rp(c) if rp else execute(mod, c, log_on=True)
    if res["status"] == "violation":
        same = expect is None or res["violation"]["signature"] == expect
        if not quiet:
            print("replay: violation %s :: %s" % ("/".join(res["violation"]["signature"]),
                                                  res["violation"]["detail"][:1500]), file=out)
            for line in res["sched"].log[-60:]:
                print("   ", line, file=out)
        if same:
            print("VIOLATION property=%s replay=%s" % (pid, path), file=out)
            return 1
        print("replay produced a different violation than recorded (%s)" % "/".join(expect), file=out)
        return 3
    if res["status"] == "ok":
        print("replay: property held on this case", file=out)
        return 0
    print("replay: %s %s" % (res["status"], res.get("detail", "")), file=out)
    return 2
