"""Concurrent callers under the baton scheduler.

K caller threads, each executing one thunk (a call into persim on argument
objects of its own).  The threads are real, but exactly one holds the baton at any
time; `sys.settrace` line events inside the code under test (persim/* and the
Hopcroft-Karp matcher) are the pre-emption points at which the scheduler may hand
the baton to another live thread, chosen by logical index.  One seed therefore is
one exactly repeatable interleaving, at line granularity.

What is modelled: re-entrancy - a call's result does not depend on which other
calls are in flight elsewhere in the process (joblib's threading backend, a web
worker pool).  The callers share nothing but the process: module globals, the
warnings machinery, NumPy's global RNG.  Sharing *argument objects* between
threads is deliberately not modelled (no property promises it).
"""
import os
import sys
import threading


class _Abort(BaseException):
    pass


def traced_prefixes():
    repo = os.path.realpath(os.environ.get("VERIF_REPO", "/repo"))
    pre = [os.path.join(repo, "persim") + os.sep]
    try:
        import hopcroftkarp
        pre.append(os.path.realpath(os.path.dirname(hopcroftkarp.__file__)) + os.sep)
    except Exception:
        pass
    return tuple(pre)


def run_concurrent(sched, thunks, p_switch=8, stats=None, prefixes=None):
    """Run thunks[i]() in thread i under scheduler-decided line-level interleaving.
    Returns a list of ("ok", value) | ("raised", exception) in thunk order."""
    K = len(thunks)
    if stats is None:
        stats = {}
    for k_ in ("concurrent_batches", "preemption_points", "thread_switches"):
        stats.setdefault(k_, 0)
    stats["concurrent_batches"] += 1
    if K == 0:
        return []
    prefixes = prefixes or traced_prefixes()
    cv = threading.Condition()
    state = {"current": None, "live": set(range(K)), "abort": False}
    out = [None] * K
    harness_errors = []
    ksw = max(2, int(p_switch))
    import numpy as _np0
    caller_err = _np0.geterr()

    def yield_baton(me, to):
        state["current"] = to
        cv.notify_all()
        while state["current"] != me and not state["abort"]:
            cv.wait()
        if state["abort"]:
            raise _Abort()

    def maybe_switch(me):
        with cv:
            stats["preemption_points"] += 1
            others = sorted(x for x in state["live"] if x != me)
            if not others:
                return
            if sched.choose(ksw, "thr.preempt?") != ksw - 1:
                return
            to = others[sched.choose(len(others), "thr.to")]
            stats["thread_switches"] += 1
            yield_baton(me, to)

    def make_tracer(me):
        def local(frame, event, arg):
            if event == "line":
                maybe_switch(me)
            return local

        def tracer(frame, event, arg):
            if event == "call" and frame.f_code.co_filename.startswith(prefixes):
                return local
            return None
        return tracer

    def worker(me):
        try:
            import numpy as _np
            _np.seterr(**caller_err)              # per-thread in NumPy 2: match the caller's setting
            with cv:
                while state["current"] != me and not state["abort"]:
                    cv.wait()
                if state["abort"]:
                    return
            sys.settrace(make_tracer(me))
            try:
                try:
                    out[me] = ("ok", thunks[me]())
                except _Abort:
                    raise
                except Exception as e:            # the call raised: that is its outcome
                    out[me] = ("raised", e)
            finally:
                sys.settrace(None)
        except _Abort:
            return
        except BaseException as e:                # CaseTimeout, HarnessError, KeyboardInterrupt...
            harness_errors.append(e)
        finally:
            with cv:
                state["live"].discard(me)
                if state["current"] == me and not state["abort"]:
                    live = sorted(state["live"])
                    state["current"] = live[sched.choose(len(live), "thr.handoff")] if live else "main"
                    cv.notify_all()

    threads = [threading.Thread(target=worker, args=(i,), daemon=True) for i in range(K)]
    for t in threads:
        t.start()
    try:
        with cv:
            state["current"] = sched.choose(K, "thr.first")
            cv.notify_all()
            while state["current"] != "main":
                cv.wait(timeout=1.0)
    except BaseException:
        with cv:
            state["abort"] = True
            cv.notify_all()
        raise
    for t in threads:
        t.join(timeout=10)
    if harness_errors:
        raise harness_errors[0]
    return out
