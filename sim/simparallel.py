"""SimParallel: the seam that owns joblib.Parallel as seen by persim.images.

Installed by `sys.modules['persim.images'].Parallel = SimParallel` (`delayed`
stays joblib's).  Honours n_jobs, backend / prefer, return_as.  Three execution
modes, one per case (swarm):

  proc            models loky / multiprocessing: persistent workers forked from the
                  pristine zygote, arguments and results cross a (cloud)pickle
                  boundary, the scheduler decides which idle worker takes the next
                  task and which busy worker completes next; workers are reused
                  across tasks and across successive Parallel calls of the case.
  thread-coop     models the threading backend at task granularity: shared memory,
                  scheduler-chosen execution order.
  thread-preempt  threading backend at *line* granularity: real threads parked on
                  one condition variable, exactly one holds the baton, sys.settrace
                  line events in persim/images*.py are preemption points at which
                  the scheduler may hand the baton to another live worker (chosen by
                  logical index, never by thread ident).

n_jobs == 1 runs the tasks sequentially in the caller, like joblib does.
All three are legal deployments (the threading backend is selected by users via
joblib.parallel_config / parallel_backend); if the code under test itself asks for
threads (prefer/backend) the proc mode is replaced by thread-coop and vice versa.
"""
import os
import sys
import threading

from .sched import CaseTimeout, HarnessError, Violation


class World(object):
    """Per-case state: mode, scheduler, persistent proc workers, counters."""

    def __init__(self, sched, mode="proc", p_switch=8, max_workers=4, default_n_jobs=None):
        self.sched = sched
        self.mode = mode
        # joblib.parallel_config(n_jobs=...) of the caller: what Parallel() uses when its own n_jobs is None
        self.default_n_jobs = default_n_jobs
        self.p_switch = int(p_switch)
        self.max_workers = max_workers
        self.workers = []           # proc-mode children (persistent across calls)
        self.calls = 0
        self.stats = {"parallel_calls": 0, "tasks": 0, "pickle_crossings": 0, "worker_switches": 0,
                      "preemption_points": 0, "reordered_dispatch": 0, "reordered_completion": 0,
                      "worker_reuse": 0, "sequential_calls": 0}

    def close(self):
        for w in self.workers:
            w.close()
        self.workers = []


WORLD = [None]


def _modules_binding_parallel():
    """persim.images today; any other persim module that a change makes import joblib's Parallel."""
    try:
        import joblib
        real = joblib.Parallel
    except Exception:
        real = None
    out = []
    for name, mod in list(sys.modules.items()):
        if mod is None or not (name == "persim" or name.startswith("persim.")):
            continue
        cur = mod.__dict__.get("Parallel")
        if cur is not None and (cur is real or cur is SimParallel or hasattr(mod, "_verif_real_Parallel")):
            out.append(mod)
    return out


def install(world):
    import persim  # noqa: F401
    for mod in _modules_binding_parallel():
        if not hasattr(mod, "_verif_real_Parallel"):
            mod._verif_real_Parallel = mod.Parallel
        mod.Parallel = SimParallel
    WORLD[0] = world


def uninstall():
    for mod in _modules_binding_parallel():
        if hasattr(mod, "_verif_real_Parallel"):
            mod.Parallel = mod._verif_real_Parallel
    if WORLD[0] is not None:
        WORLD[0].close()
    WORLD[0] = None


class SimParallel(object):
    def __init__(self, n_jobs=None, backend=None, prefer=None, require=None, return_as="list", **kw):
        self.n_jobs = n_jobs
        self.backend = backend
        self.prefer = prefer
        self.require = require
        self.return_as = return_as
        self.kw = kw

    # ------------------------------------------------------------------
    def _n_eff(self, n_tasks):
        n = self.n_jobs
        if n is None:
            n = (WORLD[0].default_n_jobs if WORLD[0] is not None else None) or 1
        if n == 0:
            raise ValueError("n_jobs == 0 in Parallel has no meaning")
        if n < 0:
            n = max(1, (os.cpu_count() or 1) + 1 + n)
        return n

    def __call__(self, iterable):
        world = WORLD[0]
        if world is None:
            raise HarnessError("SimParallel used outside a simulated world")
        tasks = list(iterable)            # joblib consumes the generator in order
        world.stats["parallel_calls"] += 1
        world.stats["tasks"] += len(tasks)
        n_eff = self._n_eff(len(tasks))
        mode = world.mode
        # `prefer=` is a soft hint that a caller's joblib.parallel_config(backend=...) overrides: only an explicit
        # backend or require="sharedmem" pins the kind of worker; otherwise the world's mode (the deployment) decides
        wants_threads = (self.backend == "threading" or self.require == "sharedmem")
        wants_procs = (self.backend in ("loky", "multiprocessing"))
        if wants_threads and mode == "proc":
            mode = "thread-coop"
        if wants_procs and mode != "proc":
            mode = "proc"
        if n_eff == 1 or not tasks:
            world.stats["sequential_calls"] += 1
            results = [(i, f(*a, **k)) for i, (f, a, k) in enumerate(tasks)]
        elif mode == "proc":
            results = self._run_proc(world, tasks, n_eff)
        elif mode == "thread-coop":
            results = self._run_coop(world, tasks)
        elif mode == "thread-preempt":
            results = self._run_preempt(world, tasks, n_eff)
        else:
            raise HarnessError("unknown parallel mode %r" % mode)
        # results is a list of (task_index, value) in *completion* order
        if self.return_as == "generator_unordered":
            return (v for _, v in results)
        ordered = [v for _, v in sorted(results, key=lambda t: t[0])]
        if self.return_as == "generator":
            return iter(ordered)
        return ordered

    # ------------------------------------------------------------------ proc
    def _run_proc(self, world, tasks, n_eff):
        from . import zygote
        sched = world.sched
        W = min(n_eff, len(tasks), world.max_workers)
        while len(world.workers) < W:
            ch = zygote.Child()
            # the worker process gets the same id() seam as the caller's world
            from . import simid
            mode = simid.CURRENT[0].mode if simid.CURRENT[0] is not None else "reuse"
            ch.send_eval("from sim import simid, simempty\nsimid.install(mode)\nsimempty.install()\nresult = True", {"mode": mode})
            msg = ch.recv()
            if msg[0] != "ok":
                raise HarnessError("could not install the id seam in a worker: %r" % (msg,))
            ch.calls = 0
            world.workers.append(ch)
        workers = world.workers[:W]
        if any(w.calls for w in workers):
            world.stats["worker_reuse"] += 1
        idle = list(range(W))
        busy = []                      # (worker_index, task_index)
        results = []
        nxt = 0
        while nxt < len(tasks) or busy:
            # the scheduler decides: dispatch next task (if possible) or complete a busy worker
            can_dispatch = nxt < len(tasks) and idle
            if can_dispatch and (not busy or sched.choose(2, "par.dispatch?") == 0):
                j = sched.choose(len(idle), "par.worker")
                if j:
                    world.stats["reordered_dispatch"] += 1
                w = idle.pop(j)
                f, a, k = tasks[nxt]
                try:
                    workers[w].send_call(f, a, k)
                except Exception as e:
                    raise Violation("parallel-call-succeeds", "transform(n_jobs)", "unpicklable-argument",
                                    "task arguments could not be sent to a worker process: %r" % (e,))
                world.stats["pickle_crossings"] += 1
                busy.append((w, nxt))
                nxt += 1
            else:
                j = sched.choose(len(busy), "par.complete")
                if j:
                    world.stats["reordered_completion"] += 1
                w, ti = busy.pop(j)
                msg = workers[w].recv()
                world.stats["pickle_crossings"] += 1
                if msg[0] != "ok":
                    raise WorkerError(msg[1], msg[2], ti)
                results.append((ti, msg[1]))
                idle.append(w)
                idle.sort()
        return results

    # ------------------------------------------------------------------ coop
    def _run_coop(self, world, tasks):
        sched = world.sched
        rest = list(range(len(tasks)))
        results = []
        while rest:
            j = sched.choose(len(rest), "par.order")
            if j:
                world.stats["reordered_dispatch"] += 1
            ti = rest.pop(j)
            f, a, k = tasks[ti]
            results.append((ti, f(*a, **k)))
        return results

    # --------------------------------------------------------------- preempt
    def _run_preempt(self, world, tasks, n_eff):
        sched = world.sched
        W = min(n_eff, len(tasks), world.max_workers)
        cv = threading.Condition()
        state = {"current": None, "next_task": 0, "live": set(range(W)), "abort": False}
        import numpy as _np0
        caller_err = _np0.geterr()
        results = []
        errors = []
        repo = os.path.realpath(os.environ.get("VERIF_REPO", "/repo"))
        traced_prefix = os.path.join(repo, "persim") + os.sep
        ksw = max(2, world.p_switch)

        def yield_baton(me, to):
            # called with cv held by `me`
            state["current"] = to
            cv.notify_all()
            while state["current"] != me and not state["abort"]:
                cv.wait()
            if state["abort"]:
                raise _Abort()

        def maybe_switch(me):
            with cv:
                world.stats["preemption_points"] += 1
                others = sorted(x for x in state["live"] if x != me)
                if not others:
                    return
                if sched.choose(ksw, "par.preempt?") != ksw - 1:
                    return
                to = others[sched.choose(len(others), "par.to")]
                world.stats["worker_switches"] += 1
                yield_baton(me, to)

        def make_tracer(me):
            def local(frame, event, arg):
                if event == "line":
                    maybe_switch(me)
                return local

            def tracer(frame, event, arg):
                if event == "call" and frame.f_code.co_filename.startswith(traced_prefix):
                    return local
                return None
            return tracer

        def worker(me):
            try:
                import numpy as _np
                _np.seterr(**caller_err)          # per-thread in NumPy 2: match the caller's setting
                with cv:
                    while state["current"] != me and not state["abort"]:
                        cv.wait()
                    if state["abort"]:
                        return
                while True:
                    with cv:
                        if state["next_task"] >= len(tasks):
                            break
                        ti = state["next_task"]
                        state["next_task"] += 1
                    f, a, k = tasks[ti]
                    sys.settrace(make_tracer(me))
                    try:
                        v = f(*a, **k)
                    finally:
                        sys.settrace(None)
                    results.append((ti, v))
                    # task boundary is a preemption point too
                    maybe_switch(me)
            except _Abort:
                return
            except BaseException as e:
                errors.append(e)
            finally:
                with cv:
                    state["live"].discard(me)
                    if state["current"] == me and not state["abort"]:
                        live = sorted(state["live"])
                        if live:
                            state["current"] = live[sched.choose(len(live), "par.handoff")]
                        else:
                            state["current"] = "main"
                        cv.notify_all()

        threads = [threading.Thread(target=worker, args=(i,), daemon=True) for i in range(W)]
        for t in threads:
            t.start()
        try:
            with cv:
                state["current"] = sched.choose(W, "par.first")
                cv.notify_all()
                while state["current"] != "main":
                    cv.wait(timeout=1.0)
        except BaseException:
            with cv:
                state["abort"] = True
                cv.notify_all()
            raise
        for t in threads:
            t.join(timeout=10)
        if errors:
            e = errors[0]
            if isinstance(e, (Violation, HarnessError, CaseTimeout)):
                raise e
            raise e
        return results


class _Abort(BaseException):
    pass


class WorkerError(Exception):
    def __init__(self, tname, text, task_index):
        super().__init__("worker raised %s in task %d: %s" % (tname, task_index, text[:600]))
        self.tname = tname
        self.text = text
