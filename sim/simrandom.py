"""SimRandom: the seam that owns the process-global NumPy RNG as seen by
persim.gromov_hausdorff (`np.random.permutation`, `np.random.choice`).

Installed by rebinding the name `np` in that module's namespace to a proxy that
forwards every attribute to NumPy except `random`.  No repository file is edited.

Modes (one per evaluation, swarm style):
  uniform   every draw is a scheduler decision (recorded on the tape)
  identity  permutation = identity, choice = 0           (degenerate entropy)
  reverse   permutation reversed, choice = n-1
  constant  choice = k mod n, permutation rotated by k
  sticky    repeats the previous draw of the same size (a stuck generator)
  real      the genuine global MT19937 after np.random.seed(k)  (real component)
Any permutation / index is a legal output of a random generator, so every mode
is a legal behaviour of the environment.
"""
import numpy as _np

MODES = ("uniform", "uniform", "uniform", "identity", "reverse", "constant", "sticky", "real")


class SimRandom(object):
    def __init__(self, sched, mode="uniform", k=0):
        self.sched = sched
        self.mode = mode
        self.k = int(k)
        self.draws = []          # the schedule trace of this evaluation
        self._last_perm = {}
        self._last_choice = {}
        if mode == "real":
            _np.random.seed(self.k % (2 ** 32))

    def permutation(self, n):
        n = int(n)
        m = self.mode
        if m == "real":
            p = _np.random.permutation(n)
        elif m == "uniform":
            p = _np.array(self.sched.permutation(n, "rng.perm"), dtype=_np.int64)
        elif m == "identity":
            p = _np.arange(n)
        elif m == "reverse":
            p = _np.arange(n)[::-1].copy()
        elif m == "constant":
            p = _np.roll(_np.arange(n), -(self.k % max(n, 1)))
        elif m == "sticky":
            if n in self._last_perm:
                p = self._last_perm[n].copy()
            else:
                p = _np.array(self.sched.permutation(n, "rng.perm"), dtype=_np.int64)
                self._last_perm[n] = p.copy()
        else:
            raise ValueError(m)
        self.draws.append(("perm", [int(x) for x in p]))
        return p

    def choice(self, n, *a, **kw):
        if not a and not kw and not isinstance(n, (int, _np.integer)) and self.mode != "real":
            # choice(sequence): the scheduler picks the position
            seq = _np.asarray(n)
            if seq.ndim == 1 and len(seq) > 0:
                return seq[self.choice(len(seq))]
        if a or kw or not isinstance(n, (int, _np.integer)):
            # not the call shape the repository uses today; defer to the real generator
            self.draws.append(("choice*", None))
            return _np.random.choice(n, *a, **kw)
        n = int(n)
        m = self.mode
        if m == "real":
            c = int(_np.random.choice(n))
        elif m == "uniform":
            c = self.sched.choose(n, "rng.choice")
        elif m == "identity":
            c = 0
        elif m == "reverse":
            c = n - 1
        elif m == "constant":
            c = self.k % n
        elif m == "sticky":
            if n in self._last_choice:
                c = self._last_choice[n]
            else:
                c = self.sched.choose(n, "rng.choice")
                self._last_choice[n] = c
        else:
            raise ValueError(m)
        self.draws.append(("choice", c))
        return c

    def __getattr__(self, name):
        # anything else the code might start using: the real module, but noted
        self.draws.append(("other:" + name, None))
        return getattr(_np.random, name)


class NPProxy(object):
    """`np` as seen by persim.gromov_hausdorff: everything from the module's current `np` (which may already be
    the poisoned-empty view of sim/simempty.py) except `random`."""

    def __init__(self, random, base=None):
        object.__setattr__(self, "random", random)
        object.__setattr__(self, "_base", base if base is not None else _np)

    def __getattr__(self, name):
        return getattr(object.__getattribute__(self, "_base"), name)


class rng_scope(object):
    """with rng_scope(sched, mode, k) as sr: gromov_hausdorff(...)"""

    def __init__(self, sched, mode="uniform", k=0):
        self.sr = SimRandom(sched, mode, k)

    def __enter__(self):
        import sys
        import persim  # noqa: F401
        self.mod = sys.modules["persim.gromov_hausdorff"]
        self.prev = self.mod.np
        self.mod.np = NPProxy(self.sr, base=self.prev)
        return self.sr

    def __exit__(self, *a):
        self.mod.np = self.prev
        return False
