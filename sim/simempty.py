"""Uninitialised memory behind the simulator.

`np.empty` / `np.empty_like` return whatever the allocator hands back; code that reads an entry it never wrote
gets values that depend on what the process did earlier (often zeros for large fresh blocks, garbage for recycled
small ones).  In the simulated world persim's modules see a NumPy whose `empty` family returns *poisoned* arrays
(NaN for inexact dtypes, a large sentinel for integers, True for bool), so reading uninitialised memory is a
deterministic, replayable wrong answer.  Code that fills every entry before reading it is unaffected.

Installed by rebinding the name `np` in each persim module to a forwarding view (no repository file is edited).
The RNG seam of C05/C17 stacks on top of it.
"""
import sys

import numpy as _np

STATS = {"empty_calls": 0}


def _poison(a):
    k = a.dtype.kind
    if k in "fc":
        a.fill(_np.nan)
    elif k in "iu":
        a.fill(_np.iinfo(a.dtype).max // 3)
    elif k == "b":
        a.fill(True)
    return a


def empty(*a, **kw):
    STATS["empty_calls"] += 1
    return _poison(_np.empty(*a, **kw))


def empty_like(*a, **kw):
    STATS["empty_calls"] += 1
    return _poison(_np.empty_like(*a, **kw))


class _MaskedUfunc(object):
    """A ufunc called with `where=` and without `out=` leaves the masked-out entries of its freshly allocated result
    uninitialised: the same allocation-history dependence as np.empty.  The wrapper hands such a call a poisoned
    `out` of the shape and dtype NumPy would have chosen; every other call is forwarded unchanged."""

    def __init__(self, uf):
        self._uf = uf

    def __getattr__(self, name):
        return getattr(self._uf, name)

    def __call__(self, *args, **kw):
        w = kw.get("where", True)
        if w is not True and kw.get("out") is None and len(args) == self._uf.nin and self._uf.nout == 1:
            try:
                kw2 = {k_: v for k_, v in kw.items() if k_ not in ("where", "out")}
                arrs = [_np.asarray(a_) for a_ in args]
                shape = _np.broadcast_shapes(*([a_.shape for a_ in arrs] + [_np.shape(w)]))
                if len(shape) > 0 and all(a_.size > 0 for a_ in arrs):
                    # the result's dtype from a one-element evaluation (cheap), its shape from broadcasting
                    probe = self._uf(*[a_.reshape(-1)[:1] for a_ in arrs], **kw2)
                    STATS["empty_calls"] += 1
                    out = _poison(_np.empty(shape, dtype=probe.dtype))
                    return self._uf(*args, out=out, **{k_: v for k_, v in kw.items() if k_ != "out"})
            except Exception:
                pass
        return self._uf(*args, **kw)


class NPView(object):
    """Forwards every attribute to `base` except the given overrides; ufuncs are handed out wrapped (see above)."""

    def __init__(self, base, **overrides):
        object.__setattr__(self, "_base", base)
        object.__setattr__(self, "_over", overrides)
        object.__setattr__(self, "_ufuncs", {})

    def __getattr__(self, name):
        over = object.__getattribute__(self, "_over")
        if name in over:
            return over[name]
        v = getattr(object.__getattribute__(self, "_base"), name)
        if isinstance(v, _np.ufunc):
            cache = object.__getattribute__(self, "_ufuncs")
            w = cache.get(name)
            if w is None:
                w = cache[name] = _MaskedUfunc(v)
            return w
        return v


def install():
    STATS["empty_calls"] = 0
    view = NPView(_np, empty=empty, empty_like=empty_like)
    for name, mod in list(sys.modules.items()):
        if mod is not None and (name == "persim" or name.startswith("persim.")) and getattr(mod, "np", None) is not None:
            base = getattr(mod, "np")
            if base is _np or isinstance(base, NPView):
                try:
                    mod.np = view
                except Exception:
                    pass
    return view
