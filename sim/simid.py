"""SimId: the seam that owns `id()` as seen by persim's modules.

`id(x)` is only guaranteed unique among *simultaneously live* objects; CPython reuses addresses of freed
objects at the allocator's whim.  A cache or memo keyed by id() is therefore correct only if it keeps its
keys alive - and whether a stale hit actually happens depends on allocation history no test controls.

SimId honours exactly the language contract and lets the run decide the rest: every object persim asks
the id of is pinned in a table; an entry whose only remaining reference is the table's is *dead from the
program's point of view* and its identifier becomes reusable.  Modes: 'unique' (never reuse; the boring
world), 'reuse' (a new object gets the most recently freed identifier - the adversarial but legal world).
Installed by rebinding the name `id` in each persim module's namespace after the world reset.
"""
import sys

_BASE = 0x7F0000000000


class SimId(object):
    def __init__(self, mode="reuse"):
        self.mode = mode
        self.entries = []       # [obj, slot]
        self.free = []          # slots whose object died (most recently freed last)
        self.next_slot = 0
        self.reused = 0
        self.calls = 0

    def _sweep(self):
        keep = []
        for e in self.entries:
            # references: the entry list itself + getrefcount's argument => 2 means nobody else holds it
            if sys.getrefcount(e[0]) <= 2:
                self.free.append(e[1])
            else:
                keep.append(e)
        self.entries = keep

    def __call__(self, obj):
        self.calls += 1
        self._sweep()
        for e in self.entries:
            if e[0] is obj:
                return _BASE + 16 * e[1]
        if self.mode == "reuse" and self.free:
            slot = self.free.pop()
            self.reused += 1
        else:
            slot = self.next_slot
            self.next_slot += 1
        self.entries.append([obj, slot])
        return _BASE + 16 * slot


CURRENT = [None]


def install(mode="reuse"):
    """(Re)bind `id` in every loaded persim module to a fresh SimId."""
    sid = SimId(mode)
    CURRENT[0] = sid
    for name, mod in list(sys.modules.items()):
        if mod is not None and (name == "persim" or name.startswith("persim.")):
            try:
                mod.id = sid
            except Exception:
                pass
    return sid
