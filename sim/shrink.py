"""Generic, structure-driven shrinking of case files.

A case is JSON: {"inputs": ..., "ops": [...], "config": {...}, "tape": [...]}.
Candidates are produced simplest-first; the runner keeps a candidate when the
same violation signature persists and restarts from it.  Candidates that are not
executable raise InvalidCase inside run_case and are simply skipped.
"""
import copy
import math


def _paths(obj, prefix=()):
    """Yield (path, value) for every list and number under obj."""
    if isinstance(obj, dict):
        for k in sorted(obj):
            yield from _paths(obj[k], prefix + (k,))
    elif isinstance(obj, list):
        yield prefix, obj
        for i, v in enumerate(obj):
            yield from _paths(v, prefix + (i,))
    elif isinstance(obj, (int, float)) and not isinstance(obj, bool):
        yield prefix, obj


def _get(obj, path):
    for p in path:
        obj = obj[p]
    return obj


def _set(obj, path, val):
    for p in path[:-1]:
        obj = obj[p]
    obj[path[-1]] = val


def simpler_numbers(x):
    """Candidate replacements for a number, simplest first."""
    out = []
    if isinstance(x, bool):
        return out
    if isinstance(x, int):
        for c in (0, 1, 2, x // 2, x - 1):
            if c != x and abs(c) <= abs(x) and c not in out:
                out.append(c)
        return out
    if not math.isfinite(x):
        return [0.0, 1.0]
    for c in (0.0, 1.0, 2.0, 0.5, 0.25, float(round(x)), float(round(x * 2) / 2),
              float("%.1g" % x), float("%.2g" % x), float("%.3g" % x)):
        if c != x and c not in out and (abs(c) <= abs(x) or abs(c - x) < abs(x)):
            out.append(c)
    return out


def list_deletions(lst, min_len=0):
    """Index sets to delete: halves, quarters, ..., single elements."""
    n = len(lst)
    if n <= min_len:
        return
    k = n
    seen = set()
    while k >= 1:
        for start in range(0, n, k):
            idx = tuple(range(start, min(n, start + k)))
            if len(idx) and n - len(idx) >= min_len and idx not in seen:
                seen.add(idx)
                yield idx
        k //= 2


def generic_candidates(case, sections=("ops", "inputs", "config")):
    # 1. delete list elements (ops first, then inputs)
    for sec in sections:
        if sec not in case:
            continue
        lists = [(p, v) for p, v in _paths(case[sec]) if isinstance(v, list)]
        # outer lists first
        lists.sort(key=lambda pv: len(pv[0]))
        for path, lst in lists:
            for idx in list_deletions(lst):
                c = copy.deepcopy(case)
                tgt = _get(c[sec], path)
                for i in reversed(idx):
                    del tgt[i]
                yield c
    # 2. simplify numbers
    for sec in sections:
        if sec not in case:
            continue
        for path, v in _paths(case[sec]):
            if isinstance(v, list):
                continue
            for nv in simpler_numbers(v):
                c = copy.deepcopy(case)
                _set(c[sec], path, nv)
                yield c


def tape_candidates(case):
    tape = case.get("tape")
    if not tape:
        return
    n = len(tape)
    if any(tape):
        c = copy.deepcopy(case)
        c["tape"] = []
        yield c
    # truncate (== zero the suffix) by bisection
    k = n // 2
    while k >= 1:
        if any(tape[n - k:]):
            c = copy.deepcopy(case)
            c["tape"] = tape[: n - k]
            yield c
        k //= 2
    # zero blocks
    k = max(1, n // 2)
    while k >= 1:
        for s in range(0, n, k):
            if any(tape[s:s + k]):
                c = copy.deepcopy(case)
                c["tape"] = tape[:s] + [0] * len(tape[s:s + k]) + tape[s + k:]
                yield c
        if k == 1:
            break
        k //= 2
        if n > 4000 and k < n // 64:
            break


def with_tape_candidates(case, gen):
    """Structure first, then tape, so that inputs get small before the (then much
    shorter) tape is worked on."""
    yield from gen(case)
    yield from tape_candidates(case)
