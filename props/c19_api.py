"""Catalogue of persim's public entry points for C19: how to build a call from
JSON fixtures, how to execute it (in the simulated world and, identically, alone
in a fork of the pristine zygote), and how to canonicalise what it returns."""
import contextlib
import io
import math
import sys
import warnings

import numpy as np

from sim.sched import InvalidCase


class Skip(Exception):
    """This call is not executable with these fixtures (not a finding)."""


# ---------------------------------------------------------------- materialisation
def mat_dgm(pts, rep):
    if rep in ("view", "fortran", "f16", "i32", "u16"):
        from props import dgmgen
        try:
            return dgmgen.materialize(pts, rep)
        except InvalidCase as e:
            raise Skip(str(e))
    if rep == "f64":
        return np.array(pts, dtype=np.float64).reshape(-1, 2) if pts else np.zeros((0, 2))
    if rep == "f32":
        return np.array(pts, dtype=np.float32).reshape(-1, 2) if pts else np.zeros((0, 2), dtype=np.float32)
    if rep == "i64":
        if not pts or not all(math.isfinite(x) and float(x).is_integer() for p in pts for x in p):
            raise Skip("not integral")
        return np.array(pts, dtype=np.int64).reshape(-1, 2)
    if rep == "u8":
        if not pts or not all(math.isfinite(x) and float(x).is_integer() and 0 <= x <= 255 for p in pts for x in p):
            raise Skip("not representable as uint8")
        return np.array(pts, dtype=np.uint8).reshape(-1, 2)
    if rep == "list":
        return [[float(x) for x in p] for p in pts]
    if rep == "ilist":
        if not pts or not all(math.isfinite(x) and float(x).is_integer() for p in pts for x in p):
            raise Skip("not integral")
        return [[int(x) for x in p] for p in pts]
    raise InvalidCase("rep")


def mat_graph(g, fmt):
    import scipy.sparse as sps
    n = g["n"]
    A = np.zeros((n, n), dtype=np.int64)
    for u, v in g["edges"]:
        A[min(u, v), max(u, v)] = 1
    if fmt == "dense":
        return A
    if fmt == "list":
        return A.tolist()
    if fmt == "csr":
        return sps.csr_matrix(A)
    if fmt == "csr0":                 # CSR that stores one of its zeros explicitly (as after A[i, j] = 0)
        M = sps.csr_matrix(A).tolil()
        free = [(i, j) for i in range(n) for j in range(n) if i != j and not A[i, j] and not A[j, i]]
        M = M.tocoo()
        rows, cols, vals = list(M.row), list(M.col), list(M.data)
        if free:
            rows.append(free[0][0]), cols.append(free[0][1]), vals.append(0)
        return sps.coo_matrix((vals, (rows, cols)), shape=(n, n)).tocsr()
    raise InvalidCase("graph fmt")


def mods():
    import importlib
    import persim  # noqa: F401
    from sim import world
    for n in world.ORDER:                 # persim/__init__ does not import every submodule
        if n not in sys.modules:
            importlib.import_module(n)
    return sys.modules


def make_imager(cfg):
    from props import imgcommon as ic
    return ic.make_imager(cfg)


def make_landscaper(a):
    L = sys.modules["persim.landscapes.transformer"].PersistenceLandscaper
    kw = {k: a[k] for k in ("start", "stop") if k in a}
    return L(hom_deg=a.get("hom_deg", 0), num_steps=a.get("num_steps", 20), flatten=bool(a.get("flatten", False)), **kw)


def _fresh_axes():
    import matplotlib
    matplotlib.use("Agg", force=False)
    import matplotlib.pyplot as plt
    fig = plt.figure()
    ax = fig.add_subplot(111)
    return plt, fig, ax


def axes_data(ax, style=False):
    out = {"title": ax.get_title(), "xlabel": ax.get_xlabel(), "ylabel": ax.get_ylabel(),
           "xlim": [float(x) for x in ax.get_xlim()], "ylim": [float(x) for x in ax.get_ylim()],
           "collections": [], "lines": [], "images": []}
    if style:
        # only for axes the library created itself (ax=None): how the drawing looks is then part of what the call did
        import matplotlib.colors as mcolors
        out["style"] = {
            "collection_colors": [[mcolors.to_hex(c_) for c_ in np.atleast_2d(c.get_facecolor())[:1]] for c in ax.collections],
            "axes_facecolor": mcolors.to_hex(ax.get_facecolor()),
            "title_fontsize": float(ax.title.get_fontsize()),
        }
    for c in ax.collections:
        off = getattr(c, "get_offsets", lambda: np.zeros((0, 2)))()
        out["collections"].append([type(c).__name__, str(c.get_label()), np.asarray(off, float).tolist()])
    for l in ax.lines:
        out["lines"].append([str(l.get_label()), np.asarray(l.get_xdata(), float).tolist(),
                             np.asarray(l.get_ydata(), float).tolist(), str(l.get_linestyle())])
    for im in ax.images:
        out["images"].append(np.asarray(im.get_array(), float).tolist())
    return out


# ---------------------------------------------------------------- building a call
def build(spec, fx, objects=None):
    """Return (thunk, args_for_mutation_check, target_axes_or_None).
    thunk() performs the call and returns the raw result.  `objects` maps object
    ids to live stateful estimators (simulated world) or is None (reference: the
    object is rebuilt from spec['obj'] and its mutator prefix)."""
    M = mods()
    fn = spec.get("fn")
    r = spec.get("rep", {})

    def D(key, idx=None, rep_key=None):
        i = spec[key] if idx is None else spec[key][idx]
        if not isinstance(i, int) or not 0 <= i < len(fx["dgms"]):
            raise InvalidCase("dgm ref")
        rk = rep_key or key
        rep = r.get(rk, "f64") if idx is None else (r.get(rk) or ["f64"] * len(spec[key]))[idx]
        return mat_dgm(fx["dgms"][i], rep)

    def AB():
        a_ = D("a")
        if spec.get("same_object") and spec.get("a") == spec.get("b") and r.get("a", "f64") == r.get("b", "f64"):
            return a_, a_                      # d(X, X) with one object passed twice
        return a_, D("b")

    if fn in ("bottleneck", "wasserstein"):
        f = getattr(M["persim." + fn], fn)
        a, b = AB()
        m = bool(spec.get("matching", False))
        return (lambda: f(a, b, matching=m)), [a, b], None
    if fn == "heat":
        a, b = AB()
        sg = float(spec.get("sigma", 0.4))
        return (lambda: M["persim.heat"].heat(a, b, sigma=sg)), [a, b], None
    if fn == "sliced_wasserstein":
        a, b = AB()
        Mn = int(spec.get("M", 10))
        return (lambda: M["persim.sliced_wasserstein"].sliced_wasserstein(a, b, M=Mn)), [a, b], None
    if fn == "persistent_entropy":
        ds = [D("ds", i) for i in range(len(spec["ds"]))]
        arg = ds if spec.get("as_list", True) else ds[0]
        kw = {k: spec[k] for k in ("keep_inf", "val_inf", "normalize") if k in spec}
        return (lambda: M["persim.persistent_entropy"].persistent_entropy(arg, **kw)), [arg], None
    if fn == "gromov_hausdorff":
        gs = [mat_graph(fx["graphs"][i], f_) for i, f_ in zip(spec["gs"], spec.get("fmts") or ["csr"] * len(spec["gs"]))]
        seed = int(spec.get("seed", 0))
        gh = M["persim.gromov_hausdorff"].gromov_hausdorff

        def call():
            np.random.seed(seed)
            return gh(gs[0], gs[1]) if (len(gs) == 2 and not spec.get("collection")) else gh(gs)
        return call, [gs], None
    if fn == "kernel":
        K = M["persim.images_kernels"]
        x = np.array(fx["grid"]["x"], dtype=float)
        y = np.array(fx["grid"]["y"], dtype=float)
        which = spec.get("which", "gaussian")
        mu = np.array(spec.get("mu", [0.0, 0.0]), dtype=float)
        if which == "gaussian":
            sg = np.array(spec.get("sigma", [[1.0, 0.0], [0.0, 1.0]]), dtype=float)
            return (lambda: K.gaussian(x, y, mu=mu, sigma=sg)), [x, y, mu, sg], None
        if which == "uniform":
            return (lambda: K.uniform(x, y, mu=mu, width=float(spec.get("w", 1.0)), height=float(spec.get("h", 1.0)))), [x, y, mu], None
        if which == "norm_cdf":
            return (lambda: K.norm_cdf(x)), [x], None
        if which == "sbvn_cdf":
            return (lambda: K.sbvn_cdf(x, y, mu_x=float(mu[0]), mu_y=float(mu[1]), sigma_x=float(spec.get("sx", 1.0)),
                                       sigma_y=float(spec.get("sy", 1.0)))), [x, y], None
        if which == "bvn_cdf":
            sg = np.array(spec.get("sigma", [[1.0, 0.0], [0.0, 1.0]]), dtype=float)
            return (lambda: K.bvn_cdf(x, y, mu_x=float(mu[0]), mu_y=float(mu[1]), sigma_xx=float(sg[0, 0]),
                                      sigma_yy=float(sg[1, 1]), sigma_xy=float(sg[0, 1]))), [x, y], None
        raise InvalidCase("kernel")
    if fn == "weight":
        Wm = M["persim.images_weights"]
        d = D("a")
        arr = np.asarray(d)
        if arr.ndim != 2 or arr.shape[0] == 0:
            raise Skip("empty")
        b, p = arr[:, 0].copy(), (arr[:, 1] - arr[:, 0])
        if not np.isfinite(np.asarray(p, float)).all():
            raise Skip("inf")
        if spec.get("which") == "linear_ramp":
            kw = dict(low=0.25, high=2.0, start=0.5, end=2.5)
            return (lambda: Wm.linear_ramp(b, p, **kw)), [b, p], None
        return (lambda: Wm.persistence(b, p, n=float(spec.get("n", 1.0)))), [b, p], None
    if fn in ("exact", "approx"):
        return build_landscape_call(spec, fx, M, D)
    if fn in ("plot_diagrams", "bottleneck_matching", "wasserstein_matching", "plot_landscape_simple", "plot_landscape",
              "imager.plot_diagram", "imager.plot_image"):
        return build_plot_call(spec, fx, M, D)
    if fn == "persimage":
        PI = M["persim.images"].PersImage
        ds = [D("ds", i) for i in range(len(spec["ds"]))]
        arg = ds if spec.get("as_list", True) else ds[0]

        what = spec.get("what", "transform")

        def mk():
            with warnings.catch_warnings():
                warnings.simplefilter("ignore")
                return PI(pixels=(5, 5), spread=spec.get("spread"), verbose=False)
        if what == "transform":
            return (lambda: mk().transform(arg)), [arg], None
        d0 = ds[0]
        if what == "to_landscape":
            # static helper of the documented class: (b, d) -> (b, d - b)
            return (lambda: PI.to_landscape(d0)), [d0], None
        if what == "weighting":
            bp = np.array(d0, dtype=float).reshape(-1, 2)
            if not np.isfinite(bp).all():
                raise Skip("finite")
            bp[:, 1] -= bp[:, 0]
            use = bool(spec.get("with_landscape", True))

            def call_w():
                w = mk().weighting(bp if use else None)
                return [w(pt) for pt in bp]
            return call_w, [bp], None
        if what == "kernel":
            data = np.array(fx["grid"]["x"][:3] + fx["grid"]["y"][:3], dtype=float).reshape(3, 2)
            pix = np.array([0.25, 0.5])
            return (lambda: mk().kernel(float(spec.get("kspread", 1.0)))(data, pix)), [data, pix], None
        if what == "show":
            imgs = [np.arange(25, dtype=float).reshape(5, 5) * (j + 1) for j in range(len(ds))]
            arg_i = imgs if spec.get("as_list", True) else imgs[0]
            holder = {}

            def call_s():
                plt, fig, ax = _fresh_axes()
                env = spec.get("_env_after_axes")
                if env is not None:
                    env(plt)
                mk().show(arg_i, ax=ax)
                data = axes_data(ax)
                plt.close(fig)
                return data
            return call_s, [arg_i], None
        raise InvalidCase("persimage what")
    if fn == "obj":
        return build_obj_call(spec, fx, objects, D)
    raise InvalidCase("unknown fn %r" % (fn,))


def _bars(fx, i):
    d = [p for p in fx["dgms"][i] if math.isfinite(p[1]) and p[1] > p[0]]
    if not d:
        raise Skip("no finite positive bar")
    return d


def build_landscape_call(spec, fx, M, D):
    Exact = M["persim.landscapes.exact"].PersLandscapeExact
    Approx = M["persim.landscapes.approximate"].PersLandscapeApprox
    tools = M["persim.landscapes.tools"]
    fn = spec["fn"]
    what = spec.get("what", "build")
    dg = [np.array(_bars(fx, i), dtype=float) for i in spec["ds"][:2]]
    if len(dg) == 1:
        dg = dg * 2
    hd = int(spec.get("hom_deg", 0))
    comp = bool(spec.get("compute", True))
    lo = min(float(d[:, 0].min()) for d in dg) - 1.0
    hi = max(float(d[:, 1].max()) for d in dg) + 1.0
    ns = int(spec.get("num_steps", 41))

    def mk(j=0):
        d2 = [dg[(j + k) % 2] for k in range(2)]
        if fn == "exact":
            return Exact(dgms=d2, hom_deg=hd, compute=comp)
        return Approx(dgms=d2, hom_deg=hd, start=lo, stop=hi, num_steps=ns, compute=comp)

    pre = None
    if what in ("add", "sub") and comp:
        # the operands are objects the caller built beforehand and keeps: they are arguments of the call
        with contextlib.redirect_stdout(io.StringIO()):
            pre = (mk(0), mk(1))
            pre[0].compute_landscape()
            pre[1].compute_landscape()

    def call():
        a = mk(0) if pre is None else pre[0]
        if pre is not None:
            return (a + pre[1]) if what == "add" else (a - pre[1])
        if what == "build":
            a.compute_landscape()
            return a
        if what == "p_norm":
            return a.p_norm(p=spec.get("p", 2))
        if what == "sup_norm":
            return a.sup_norm()
        if what == "add":
            return a + mk(1)
        if what == "sub":
            return a - mk(1)
        if what == "mul":
            return a * float(spec.get("c", 2.0))
        if what == "rmul":
            return float(spec.get("c", 2.0)) * a
        if what == "div":
            return a / float(spec.get("c", 2.0))
        if what == "neg":
            return -a
        if what == "by_depth":
            if fn != "exact":
                raise Skip("exact landscapes only")
            return a.compute_landscape_by_depth(int(spec.get("depth", 0)))
        if what == "values_to_pairs":
            if fn != "approx":
                raise Skip("grid landscapes only")
            return a.values_to_pairs()
        if what == "getitem":
            return a[0]
        if what == "death_vector":
            return tools.death_vector(dg, hom_deg=0)
        if what == "vectorize":
            if fn != "exact":
                raise Skip("vectorize takes an exact landscape")
            return tools.vectorize(a, start=lo, stop=hi, num_steps=ns)
        if what in ("snap", "lc", "avg"):
            if fn != "approx":
                raise Skip("grid tools take grid landscapes")
            b = Approx(dgms=[dg[1], dg[0]], hom_deg=hd, start=lo - 1.0, stop=hi, num_steps=ns + 10)
            if what == "snap":
                return tools.snap_pl([a, b])
            if what == "lc":
                return tools.lc_approx([a, b], [2.0, -1.0])
            return tools.average_approx([a, b])
        raise InvalidCase("what")
    return call, ([dg] if pre is None else [dg, pre[0], pre[1]]), None


def build_plot_call(spec, fx, M, D):
    fn = spec["fn"]
    V = M["persim.visuals"]

    def with_axes(draw, args):
        holder = {}

        def call():
            plt, fig, ax = _fresh_axes()
            holder["ax"] = ax
            env = spec.get("_env_after_axes")
            if env is not None:
                env(plt)                       # the environment actor moves pyplot's current figure
            with contextlib.redirect_stdout(io.StringIO()):
                draw(ax)
            data = axes_data(ax)
            plt.close(fig)
            return data
        return call, args, holder

    if fn == "plot_diagrams":
        ds = [D("ds", i) for i in range(len(spec["ds"]))]
        ds = [np.asarray(d) for d in ds]
        if any(d.ndim != 2 or d.shape[0] == 0 for d in ds):
            raise Skip("empty")
        arg = ds if (spec.get("as_list", True) or len(ds) > 1) else ds[0]
        import copy as _copy
        opts = _copy.deepcopy(spec.get("opts") or {})       # lists in it (labels, plot_only, xy_range) are the caller's objects
        if isinstance(opts.get("labels"), list) and len(opts["labels"]) != len(ds):
            raise InvalidCase("labels")
        if opts.get("colormap", "default") not in ("default", "ggplot", "bmh"):
            raise InvalidCase("colormap")
        if spec.get("ax") == "none":
            # the caller has no figure open and lets the library create the axes (the documented default)
            def call_none():
                import matplotlib
                matplotlib.use("Agg", force=False)
                import matplotlib.pyplot as plt
                plt.close("all")
                with contextlib.redirect_stdout(io.StringIO()):
                    V.plot_diagrams(arg, **opts)
                fig = plt.gcf()
                if len(fig.axes) != 1:
                    data = {"axes_in_current_figure": len(fig.axes)}
                else:
                    data = axes_data(fig.axes[0], style=True)
                plt.close("all")
                return data
            return call_none, [arg, opts], None
        return with_axes(lambda ax: V.plot_diagrams(arg, ax=ax, **opts), [arg, opts])
    if fn in ("bottleneck_matching", "wasserstein_matching"):
        a, b = np.asarray(D("a")), np.asarray(D("b"))
        if a.ndim != 2 or b.ndim != 2 or not (np.isfinite(a.astype(float)).all() and np.isfinite(b.astype(float)).all()):
            raise Skip("finite 2-d arrays only")
        dist = getattr(M["persim." + fn.split("_")[0]], fn.split("_")[0])

        def draw(ax):
            _, rows = dist(a, b, matching=True)
            getattr(V, fn)(a, b, rows, ax=ax)
        return with_axes(draw, [a, b])
    if fn == "plot_landscape_simple":
        Exact = M["persim.landscapes.exact"].PersLandscapeExact
        Approx = M["persim.landscapes.approximate"].PersLandscapeApprox
        dg = [np.array(_bars(fx, spec["ds"][0]), dtype=float)]
        LV = M["persim.landscapes.visuals"]

        def draw(ax):
            L = Approx(dgms=dg, hom_deg=0, num_steps=30) if spec.get("approx") else Exact(dgms=dg, hom_deg=0)
            LV.plot_landscape_simple(L, ax=ax)
        return with_axes(draw, [dg])
    if fn == "plot_landscape":
        Exact = M["persim.landscapes.exact"].PersLandscapeExact
        Approx = M["persim.landscapes.approximate"].PersLandscapeApprox
        dg = [np.array(_bars(fx, spec["ds"][0]), dtype=float)]
        LV = M["persim.landscapes.visuals"]

        def call3d():
            import matplotlib
            matplotlib.use("Agg", force=False)
            import matplotlib.pyplot as plt
            L = Approx(dgms=dg, hom_deg=0, num_steps=15) if spec.get("approx") else Exact(dgms=dg, hom_deg=0)
            kw = {}
            if spec.get("title"):
                kw["title"] = str(spec["title"])
            if spec.get("depth_range"):
                kw["depth_range"] = range(int(spec["depth_range"]))
            with contextlib.redirect_stdout(io.StringIO()):
                fig = LV.plot_landscape(L, num_steps=int(spec.get("steps", 12)), **kw)
            if fig is None or len(fig.axes) != 1:
                data = {"axes_in_returned_figure": None if fig is None else len(fig.axes)}
            else:
                ax = fig.axes[0]
                data = {"title": ax.get_title(), "ylabel": ax.get_ylabel(), "lines": []}
                for l in ax.lines:
                    x, y, z = l.get_data_3d()
                    data["lines"].append([np.asarray(x, float).tolist(), np.asarray(y, float).tolist(),
                                          np.asarray(z, float).tolist()])
            if not spec.get("keep_open") and fig is not None:
                plt.close(fig)            # otherwise the caller keeps the figure open, as notebooks do
            return data
        return call3d, [dg], None
    if fn == "imager.plot_diagram":
        d = np.asarray(D("a"))
        if d.ndim != 2 or d.shape[0] == 0 or not np.isfinite(d.astype(float)).all():
            raise Skip("finite non-empty")
        cfg = fx["imagers"][spec.get("cfg", 0)]
        sk = bool(spec.get("skew", True))
        return with_axes(lambda ax: make_imager(cfg).plot_diagram(d, skew=sk, ax=ax), [d])
    if fn == "imager.plot_image":
        d = np.asarray(D("a"))
        if d.ndim != 2 or not np.isfinite(d.astype(float)).all():
            raise Skip("finite")
        cfg = fx["imagers"][spec.get("cfg", 0)]

        def draw(ax):
            im = make_imager(cfg)
            img = im.transform(d, skew=True)
            im.plot_image(img, ax=ax)
        return with_axes(draw, [d])
    raise InvalidCase("plot fn")


def apply_obj_op(obj, kind, op, fx, D_of):
    """One operation on a stateful estimator; returns (result, args)."""
    if op["m"] == "fit":
        X = D_of(op)
        return obj.fit(X, **({"skew": bool(op.get("skew", True))} if kind == "imager" else {})), [X]
    if op["m"] == "transform":
        X = D_of(op)
        kw = {"skew": bool(op.get("skew", True))} if kind == "imager" else {}
        if kind == "imager" and op.get("n_jobs") is not None:
            kw["n_jobs"] = int(op["n_jobs"])          # runs under SimParallel in the simulated world
        return obj.transform(X, **kw), [X]
    if op["m"] == "fit_transform":
        X = D_of(op)
        return obj.fit_transform(X, **({"skew": bool(op.get("skew", True))} if kind == "imager" else {})), [X]
    if op["m"] == "pixel_size=":
        obj.pixel_size = float(op["val"])
        return None, []
    if op["m"] == "birth_range=":
        obj.birth_range = (float(op["val"][0]), float(op["val"][1]))
        return None, []
    if op["m"] == "shift_ranges":
        # the window moves by a fraction of a pixel: same resolution, other pixel boundaries
        s_ = float(op["val"]) * float(obj.pixel_size)
        b_, p_ = tuple(obj.birth_range), tuple(obj.pers_range)
        obj.birth_range = (float(b_[0]) + s_, float(b_[1]) + s_)
        obj.pers_range = (float(p_[0]) + s_, float(p_[1]) + s_)
        return None, []
    if op["m"] == "kparams[]=":
        # the user edits the public parameter dict of *this* imager in place
        obj.kernel_params["sigma"] = op["val"]
        return None, []
    if op["m"] == "wparams[]=":
        obj.weight_params["n"] = float(op["val"])
        return None, []
    if op["m"] == "pers_range=":
        obj.pers_range = (float(op["val"][0]), float(op["val"][1]))
        return None, []
    raise InvalidCase("method")


def build_obj_call(spec, fx, objects, D):
    kind = spec["kind"]

    def D_of(op):
        reps = op.get("reps") or ["f64"] * len(op["ds"])
        X = []
        for i, rp in zip(op["ds"], reps):
            if not isinstance(i, int) or not 0 <= i < len(fx["dgms"]):
                raise InvalidCase("dgm ref")
            if kind == "landscaper":
                X.append(np.array(_bars(fx, i), dtype=float))
            else:
                pts = [p for p in fx["dgms"][i] if math.isfinite(p[1])]
                if not pts:
                    raise Skip("empty after dropping infinite bars")
                X.append(mat_dgm(pts, rp))
        if kind == "landscaper":
            return X[:2] if len(X) >= 2 else X * 2
        return X

    def ctor():
        if kind == "imager":
            if spec["ctor"] == "default":
                # constructed the way the documentation does: everything but the pixel size left at its default
                return mods()["persim.images"].PersistenceImager(pixel_size=0.25)
            return make_imager(fx["imagers"][spec["ctor"]])
        return make_landscaper(spec["ctor"])

    op = spec["call"]
    if objects is not None:
        key = spec["obj_id"]
        pre = D_of(op) if "ds" in op else None        # materialised now: these are the caller's arguments

        def call():
            if key not in objects:
                objects[key] = ctor()
            res, _ = apply_obj_op(objects[key], kind, op, fx, lambda _op: pre)
            return state_and(res, objects[key], kind)
        return call, ([pre] if pre is not None else []), None

    def ref_call():
        # alone in a fresh process the call is made serially: n_jobs only changes *how* the same images are computed
        nonlocal op
        op = {k_: v for k_, v in op.items() if k_ != "n_jobs"}
        o = ctor()
        for pre in spec.get("prefix") or []:
            try:
                with contextlib.redirect_stdout(io.StringIO()):
                    apply_obj_op(o, kind, pre, fx, D_of)
            except Skip:
                raise
            except Exception:
                pass                  # a mutator that raised in the history raised here too
        res, args = apply_obj_op(o, kind, op, fx, D_of)
        return state_and(res, o, kind)
    return ref_call, [], None


def state_and(res, obj, kind):
    if kind == "imager":
        st = {"birth_range": [float(x) for x in obj.birth_range], "pers_range": [float(x) for x in obj.pers_range],
              "pixel_size": float(obj.pixel_size), "resolution": [int(x) for x in obj.resolution],
              "weight_params": canon(dict(obj.weight_params)), "kernel_params": canon(dict(obj.kernel_params))}
    else:
        st = {"start": obj.start, "stop": obj.stop, "num_steps": obj.num_steps}
    if res is obj:
        res = "self"
    return {"result": res, "state": st}


# ---------------------------------------------------------------- canonical form
def canon(v, depth=0):
    if depth > 12:
        return "..."
    if v is None or isinstance(v, (bool, str)):
        return v
    if isinstance(v, (int, np.integer)):
        return int(v)
    if isinstance(v, (float, np.floating)):
        return float(v)
    if isinstance(v, np.ndarray):
        if v.dtype.kind in "OUS":
            return ["objarray"] + [canon(x, depth + 1) for x in v.tolist()]
        return ["nd", list(v.shape), v.astype(float).ravel().tolist()]
    if isinstance(v, (list, tuple)):
        return [canon(x, depth + 1) for x in v]
    if isinstance(v, dict):
        return {str(k): canon(x, depth + 1) for k, x in sorted(v.items(), key=lambda kv: str(kv[0]))}
    name = type(v).__name__
    if name == "PersLandscapeExact":
        v.compute_landscape()
        return {"exact": canon(v.critical_pairs, depth + 1), "hom_deg": v.hom_deg}
    if name == "PersLandscapeApprox":
        with contextlib.redirect_stdout(io.StringIO()):
            v.compute_landscape()
        return {"approx": canon(np.asarray(v.values), depth + 1), "grid": [float(v.start), float(v.stop), int(v.num_steps)],
                "hom_deg": v.hom_deg}
    if hasattr(v, "get_xlim") and hasattr(v, "collections"):
        return axes_data(v)
    if hasattr(v, "tolist"):
        return canon(np.asarray(v), depth + 1)
    if hasattr(v, "toarray"):
        return canon(v.toarray(), depth + 1)
    return "<%s>" % name


def same(a, b, rel=1e-12, path=""):
    """None if equal (floats rel 1e-12, NaN == NaN), else a path string."""
    if isinstance(a, float) or isinstance(b, float):
        if not isinstance(a, (int, float)) or not isinstance(b, (int, float)) or isinstance(a, bool) or isinstance(b, bool):
            return path or "."
        if a == b or (a != a and b != b):
            return None
        if abs(a - b) <= rel * max(abs(a), abs(b)):
            return None
        return path or "."
    if type(a) is not type(b):
        return path or "."
    if isinstance(a, list):
        if len(a) != len(b):
            return path + "[len]"
        for i, (x, y) in enumerate(zip(a, b)):
            r = same(x, y, rel, "%s[%d]" % (path, i))
            if r:
                return r
        return None
    if isinstance(a, dict):
        if sorted(a) != sorted(b):
            return path + "{keys}"
        for k in a:
            r = same(a[k], b[k], rel, "%s.%s" % (path, k))
            if r:
                return r
        return None
    return None if a == b else (path or ".")


def json_like(v):
    if isinstance(v, (list, tuple)):
        return [json_like(x) for x in v]
    if isinstance(v, np.ndarray):
        return v.tolist()
    return float(v) if isinstance(v, (int, float, np.integer, np.floating)) else repr(v)


def digest_args(args):
    """Byte-level digest source of the arguments of a call."""
    import hashlib
    h = hashlib.sha1()

    def walk(v):
        if isinstance(v, np.ndarray):
            h.update(b"nd" + v.dtype.str.encode() + repr(v.shape).encode())
            h.update(np.ascontiguousarray(v).tobytes() if v.dtype.kind != "O" else repr(v.tolist()).encode())
        elif isinstance(v, (list, tuple)):
            h.update(b"[" if isinstance(v, list) else b"(")
            for x in v:
                walk(x)
            h.update(b"]")
        elif isinstance(v, dict):
            for k in sorted(v):
                h.update(repr(k).encode())
                walk(v[k])
        elif type(v).__name__ in ("PersLandscapeApprox", "PersLandscapeExact"):
            # a (computed) landscape object handed over as an operand: its public state
            h.update(type(v).__name__.encode() + repr(getattr(v, "hom_deg", None)).encode())
            if type(v).__name__ == "PersLandscapeApprox":
                h.update(repr((float(v.start), float(v.stop), int(v.num_steps))).encode())
                walk(np.asarray(v.values))
            else:
                walk(json_like(v.critical_pairs))
        elif hasattr(v, "toarray"):
            # sparse matrix: the stored structure is part of the caller's object, not only its dense value
            h.update(("sp:" + getattr(v, "format", "?") + repr(v.shape)).encode())
            for name in ("data", "indices", "indptr", "row", "col"):
                a_ = getattr(v, name, None)
                if a_ is not None:
                    h.update(name.encode())
                    walk(np.asarray(a_))
        else:
            h.update(repr(v).encode())
    walk(args)
    return h.hexdigest()


# ---------------------------------------------------------------- execution
def run_thunk(thunk):
    """-> ("ok", canonical) | ("raised", type name) | ("skip", reason)"""
    try:
        with contextlib.redirect_stdout(io.StringIO()):
            res = thunk()
        return ("ok", canon(res))
    except Skip as e:
        return ("skip", str(e))
    except InvalidCase:
        raise
    except Exception as e:
        return ("raised", type(e).__name__)


def reference(spec, fx):
    """Executed inside a fork of the pristine zygote: the call alone in a fresh process."""
    import persim  # noqa: F401
    warnings.simplefilter("ignore")
    np.seterr(all="ignore")
    try:
        thunk, _, _ = build(spec, fx, None)
    except Skip as e:
        return ("skip", str(e))
    return run_thunk(thunk)
