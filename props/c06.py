"""C06 - returned matchings certify the reported bottleneck / Wasserstein
distance, for every iteration order of the matcher's str-keyed sets (the
bottleneck matching *does* vary with the order: it is the last feasible
Hopcroft-Karp result) and every real hash seed.  No tie-break is assumed."""
import copy
import hashlib
import json
import math

import numpy as np

from models import ref_matching as rm
from props import dgmgen, match_common as mc
from sim import simset
from sim.sched import InvalidCase, Violation

ID = "C06"
NEEDS_ZYGOTE = True          # only used if a change makes the distance functions run joblib workers in processes
TITLE = "Returned matchings certify the reported bottleneck/Wasserstein distance"
CASE_TIMEOUT_S = 120.0
PLAN = {
    "quick": {"runs": 12800, "chunk": 50, "shrink_s": 30.0},
    "thorough": {"budget_s": 600.0, "chunk": 40, "shrink_s": 60.0},
}
RULE = ("case = pair of finite generated diagrams (sizes 0..40 quick / 0..150 thorough; ties, repeated, shared and "
        "diagonal points, empty sides, four representations); bottleneck(matching=True) is evaluated k=2..5 times, "
        "each under a fresh scheduler-owned order of every str-keyed set in the matcher, and once more without "
        "matching under an independent order; wasserstein(matching=True/False) runs on the same inputs as the "
        "fault-free control (SciPy's assignment is deterministic). Every returned matching is validated as a "
        "certificate. Same cases again under real PYTHONHASHSEED interpreters. distinct_nontrivial = distinct input "
        "pairs with both sides non-empty and >= 3 points in total for which >= 2 evaluations were made "
        "(and counted separately: for which two orders produced different, both valid, matchings).")
ASSUMPTIONS = [
    "any permutation of a str-keyed set is a legal CPython iteration order",
    "row costs are recomputed by my own L-infinity / Euclidean / diagonal formulas; Wasserstein cross costs are "
    "compared with atol 2e-7*max|coordinate| per row (2e-7*(M+N)*max|coordinate| for the sum) because scikit-learn's expanded quadratic form has sqrt(eps) "
    "absolute noise for near-coincident points (DESIGN.md section 3)",
    "sampling, not proof",
]
REAL_COMPONENTS = ["persim.bottleneck, persim.wasserstein (working tree)", "hopcroftkarp (real code)",
                   "scipy.optimize.linear_sum_assignment", "sklearn pairwise_distances",
                   "real CPython set order in the PYTHONHASHSEED sweep"]
STUB_COMPONENTS = ["builtin set inside hopcroftkarp -> SimSet (simulated phase only); the Wasserstein half has no "
                   "nondeterminism to stub"]


reset_world = mc.reset_world


def gen_case(rng, tier):
    r = rng.random()
    if r < 0.4:
        max_n = 4
    elif r < 0.85:
        max_n = 12
    else:
        max_n = rng.choice((40, 40, 40, 90)) if tier == "quick" else rng.choice((40, 80, 150))
    A, B = dgmgen.gen_pair(rng, max_n, allow_inf=False)
    k = rng.randint(2, 5 if max_n <= 12 else 2)
    # short call history before the pair under test (same total size, other split; or the swapped pair)
    prelude = []
    r = rng.random()
    if r < 0.3 and max_n <= 40 and (A or B):
        if A and rng.random() < 0.5:
            j = rng.randrange(len(A))
            prelude.append([A[:j] + A[j + 1:], B + [A[j]]])
        elif B:
            j = rng.randrange(len(B))
            prelude.append([A + [B[j]], B[:j] + B[j + 1:]])
        if rng.random() < 0.4:
            prelude.append([B, A])
    u8 = rng.random() < 0.08
    if u8:
        A, B = dgmgen.gen_u8_pair(rng, max_n)
        prelude = []
    case_ = {
        "inputs": {"dgm1": A, "dgm2": B, "rep1": dgmgen.representation(rng, A),
                   "rep2": dgmgen.representation(rng, B), "prelude": prelude},
        "config": {"set_order": "sim", "modes": [rng.choice(mc.ORDER_MODES) for _ in range(k)],
                   "plain_mode": rng.choice(mc.ORDER_MODES), "warn_filter": rng.choice(mc.WARN_FILTERS)},
        "ops": [],
    }
    if max_n <= 12 and rng.random() < 0.1:
        case_["inputs"]["concurrent"] = [list(dgmgen.gen_pair(rng, rng.choice((4, 8)), allow_inf=False))
                                         for _ in range(rng.randint(1, 2))]
        case_["config"]["p_switch"] = rng.choice((2, 4, 8))
    if u8:
        case_["inputs"]["rep1"] = case_["inputs"]["rep2"] = "u8"
    elif A and B and rng.random() < 0.12:
        how = rng.choice(dgmgen.SHARED)
        if how in ("cols4", "interleave", "window"):
            n_ = min(len(A), len(B))
            A, B = A[:n_], B[:n_]
            if how == "window" and n_ >= 2:
                k_ = rng.randint(1, n_ - 1)
                B = A[k_:] + B[:k_]
        case_["inputs"].update(dgm1=A, dgm2=B, rep1="f64", rep2="f64", shared=how)
    return case_


def placeholder(P):
    P = np.asarray(P, float).reshape(-1, 2)
    return P if len(P) else np.array([[0.0, 0.0]])


def validate(kind, d, rows, S, T, where, scale):
    """The certificate clauses of the property.  S, T already carry the (0,0)
    placeholder for an empty diagram."""
    site = kind + ".matching"
    M, N = len(S), len(T)
    tagsz = "empty" if (M == 1 and S[0, 0] == 0 and S[0, 1] == 0) or (N == 1 and T[0, 0] == 0 and T[0, 1] == 0) \
        else "nonempty"
    if rows.ndim != 2 or rows.shape[1] != 3:
        raise Violation("rows-are-triples", site, "shape", "matching has shape %r (%s)" % (rows.shape, where))
    ii, jj, cc = rows[:, 0], rows[:, 1], rows[:, 2]
    if not (np.all(ii == np.round(ii)) and np.all(jj == np.round(jj))):
        raise Violation("indices-are-integers", site, "non-integer", "index columns %r (%s)" % (rows.tolist(), where))
    ii = ii.astype(int)
    jj = jj.astype(int)
    if np.any((ii == -1) & (jj == -1)):
        raise Violation("no-diagonal-diagonal-row", site, tagsz, "row (-1,-1) present: %r (%s)" % (rows.tolist(), where))
    for name, col, n in (("dgm1", ii, M), ("dgm2", jj, N)):
        got = sorted(int(x) for x in col if x != -1)
        if got != list(range(n)):
            d_ = "missing" if len(got) < n else ("duplicate" if len(got) > n or len(set(got)) < len(got) else "out-of-range")
            raise Violation("every-point-exactly-once", site, d_ + "/" + tagsz,
                            "%s indices in matching are %r, expected each of 0..%d once (%s); rows=%r"
                            % (name, got, n - 1, where, rows.tolist()))
    tol_cross = 1e-12 * scale if kind == "bottleneck" else 2e-7 * scale
    tol_diag = 1e-12 * scale if kind == "bottleneck" else 1e-9 * scale
    tot = 0.0
    mx = 0.0
    for i, j, c in zip(ii, jj, cc):
        if i >= 0 and j >= 0:
            if kind == "bottleneck":
                want = max(abs(S[i, 0] - T[j, 0]), abs(S[i, 1] - T[j, 1]))
            else:
                want = math.hypot(S[i, 0] - T[j, 0], S[i, 1] - T[j, 1])
            tol, what = tol_cross, "cross"
        else:
            p = S[i] if i >= 0 else T[j]
            want = (p[1] - p[0]) / (2.0 if kind == "bottleneck" else math.sqrt(2.0))
            tol, what = tol_diag, "diagonal"
        if not abs(c - want) <= tol:
            raise Violation("row-cost==pairing-cost", site, what + "/" + tagsz,
                            "row (%d,%d) carries cost %r but that pairing costs %r (%s)" % (i, j, c, want, where))
        tot += want
        mx = max(mx, want)
    if kind == "bottleneck":
        if not abs(mx - d) <= 1e-12 * scale or not abs(float(np.max(cc)) - d) <= 1e-12 * scale:
            raise Violation("max-row-cost==distance", site, ("lt" if mx < d else "gt") + "/" + tagsz,
                            "max pairing cost %r (column max %r) but reported distance %r (%s)"
                            % (mx, float(np.max(cc)), d, where))
    else:
        tol = 2e-7 * (M + N) * scale
        if not abs(tot - d) <= tol or not abs(float(np.sum(cc)) - d) <= 1e-9 * max(abs(d), scale):
            raise Violation("sum-row-cost==distance", site, ("lt" if tot < d else "gt") + "/" + tagsz,
                            "sum of pairing costs %r (column sum %r) but reported distance %r (%s)"
                            % (tot, float(np.sum(cc)), d, where))


def run_case(case, sched):
    with mc.parallel_world(sched, case):
        return _run_case(case, sched)


def _run_case(case, sched):
    inp, cfg = case["inputs"], case["config"]
    for k in ("dgm1", "dgm2"):
        dgmgen.check_diagram_json(inp[k])
        if any(not math.isfinite(p[1]) for p in inp[k]):
            raise InvalidCase("C06 is stated for finite diagrams")
    A = dgmgen.materialize(inp["dgm1"], inp.get("rep1", "f64"))
    B = dgmgen.materialize(inp["dgm2"], inp.get("rep2", "f64"))
    shared_used = 0
    if inp.get("shared") is not None:
        # both diagrams are views into one buffer of the caller
        if inp["shared"] not in dgmgen.SHARED:
            raise InvalidCase("shared")
        vw_ = dgmgen.shared_views(inp["dgm1"], inp["dgm2"], inp["shared"]) \
            if inp.get("rep1", "f64") == "f64" and inp.get("rep2", "f64") == "f64" else None
        if vw_ is not None:
            A, B = vw_
            shared_used = 1
    S, T = placeholder(dgmgen.as_points(A)), placeholder(dgmgen.as_points(B))
    coords = [abs(x) for p in list(S) + list(T) for x in p]
    scale = max(max(coords), 1e-300)
    wf = cfg.get("warn_filter", "always")
    if wf not in ("always", "default", "once", "ignore"):
        raise InvalidCase("bad filter")
    simset.CTX.iters = simset.CTX.permuted = 0
    results = []
    evals = 0
    # the call history: other pairs go through both distance functions first, held to the same certificate clauses
    n_prelude = 0
    for pi, pq in enumerate(inp.get("prelude") or []):
        if not (isinstance(pq, list) and len(pq) == 2):
            raise InvalidCase("prelude")
        for d_ in pq:
            dgmgen.check_diagram_json(d_)
            if any(not math.isfinite(p[1]) for p in d_):
                raise InvalidCase("finite")
        P, Q = dgmgen.materialize(pq[0]), dgmgen.materialize(pq[1])
        SP, TQ = placeholder(pq[0]), placeholder(pq[1])
        psc = max([abs(x) for p_ in list(SP) + list(TQ) for x in p_] + [1e-300])
        if cfg.get("set_order", "sim") == "sim":
            d_, rows_, _ = mc.call_bottleneck(sched, P, Q, True, (cfg.get("modes") or ["uniform"])[0], "ignore",
                                              site="bottleneck.matching")
            validate("bottleneck", d_, rows_, SP, TQ, "call #%d of the history" % pi, psc)
        dw_, rw_, _ = mc.call_wasserstein(P, Q, True, "ignore", site="wasserstein.matching")
        validate("wasserstein", dw_, rw_, SP, TQ, "call #%d of the history" % pi, psc)
        n_prelude += 1
        evals += 2
    if cfg.get("set_order", "sim") == "sim":
        modes = cfg.get("modes") or []
        if not modes:
            raise InvalidCase("no evaluation")
        for k, mode in enumerate(modes):
            if mode not in ("uniform", "sparse", "reverse", "insertion"):
                raise InvalidCase("bad mode")
            d, rows, _ = mc.call_bottleneck(sched, A, B, True, mode, wf, site="bottleneck.matching")
            results.append((d, rows, "order#%d(%s)" % (k, mode)))
        pm = cfg.get("plain_mode", "uniform")
        if pm not in ("uniform", "sparse", "reverse", "insertion"):
            raise InvalidCase("bad mode")
        d_plain, _, _ = mc.call_bottleneck(sched, A, B, False, pm, wf)
        plain_where = "matching=False under an independent order (%s)" % pm
    else:
        hs = cfg.get("hashseeds") or []
        if not hs:
            raise InvalidCase("no hash seeds")
        for h in hs:
            d, rows, _ = mc.call_bottleneck_real(int(h), inp["dgm1"], inp["dgm2"], inp.get("rep1", "f64"),
                                                 inp.get("rep2", "f64"), True, site="bottleneck.matching")
            results.append((d, rows, "PYTHONHASHSEED=%s" % h))
            sched.count("real_hashseed_evals")
        d_plain, _, _ = mc.call_bottleneck_real(int(hs[-1]), inp["dgm1"], inp["dgm2"], inp.get("rep1", "f64"),
                                                inp.get("rep2", "f64"), False)
        plain_where = "matching=False under PYTHONHASHSEED=%s" % hs[-1]
    evals += len(results) + 1
    distinct_matchings = set()
    for d, rows, where in results:
        sched.note("%s d=%s rows=%s" % (where, d.hex() if d == d else "nan", rows.tolist()))
        validate("bottleneck", d, rows, S, T, where, scale)
        distinct_matchings.add(tuple(sorted((int(r[0]), int(r[1])) for r in rows)))
        if d != d_plain:
            raise Violation("same-distance-with-and-without-matching", "bottleneck.matching",
                            "lt" if d < d_plain else "gt",
                            "distance %r with matching (%s) but %r with %s" % (d, where, d_plain, plain_where))
    # Wasserstein: fault-free control (deterministic solver)
    dw, rows_w, _ = mc.call_wasserstein(A, B, True, wf, site="wasserstein.matching")
    dw_plain, _, _ = mc.call_wasserstein(A, B, False, wf)
    evals += 2
    sched.note("wasserstein d=%s rows=%s" % (dw.hex() if dw == dw else "nan", rows_w.tolist()))
    validate("wasserstein", dw, rows_w, S, T, "wasserstein(matching=True)" + (
        " after %d earlier call(s) on other pairs" % n_prelude if n_prelude else ""), scale)
    if not abs(dw - dw_plain) <= 1e-12 * max(abs(dw), scale):
        raise Violation("same-distance-with-and-without-matching", "wasserstein.matching",
                        "lt" if dw < dw_plain else "gt", "%r with matching, %r without" % (dw, dw_plain))
    # ---- concurrent callers: both distances, with matchings, while other threads do the same on other pairs
    cstats = {}
    conc = inp.get("concurrent") or []
    if conc and cfg.get("set_order", "sim") == "sim":
        import warnings
        from sim import callers
        bott_, wass_ = mc.sut()
        jobs = [("bottleneck", bott_, A, B, S, T, scale), ("wasserstein", wass_, A, B, S, T, scale)]
        for pq in conc:
            if not (isinstance(pq, list) and len(pq) == 2):
                raise InvalidCase("concurrent")
            for d_ in pq:
                dgmgen.check_diagram_json(d_)
                if any(not math.isfinite(p[1]) for p in d_):
                    raise InvalidCase("finite")
            SP, TQ = placeholder(pq[0]), placeholder(pq[1])
            psc = max([abs(x) for p_ in list(SP) + list(TQ) for x in p_] + [1e-300])
            for nm_, f_ in (("bottleneck", bott_), ("wasserstein", wass_)):
                jobs.append((nm_, f_, dgmgen.materialize(pq[0]), dgmgen.materialize(pq[1]), SP, TQ, psc))
        if len(jobs) > 6:
            raise InvalidCase("too many concurrent callers")
        order = list(range(len(jobs)))
        with simset.order_scope(sched, (cfg.get("modes") or ["uniform"])[0]):
            with warnings.catch_warnings(record=True):
                warnings.simplefilter("always")
                outs = callers.run_concurrent(sched, [(lambda j=j: j[1](j[2], j[3], matching=True)) for j in jobs],
                                              int(cfg.get("p_switch", 4)), cstats)
        for ci, ((st_, v_), j) in enumerate(zip(outs, jobs)):
            site_ = j[0] + ".matching(concurrent)"
            if st_ != "ok":
                raise Violation("no-exception", site_, type(v_).__name__, "caller #%d of %d concurrent callers: %s raised %s: %s"
                                % (ci, len(jobs), j[0], type(v_).__name__, str(v_)[:200]))
            d_c, rows_c = float(v_[0]), np.asarray(v_[1], dtype=float)
            validate(j[0], d_c, rows_c, j[4], j[5], "caller #%d of %d concurrent callers" % (ci, len(jobs)), j[6])
        evals += len(jobs)
        del order
    n_real = (len(inp["dgm1"]) > 0) + (len(inp["dgm2"]) > 0)
    return {
        "evals": evals,
        "key": hashlib.sha1(json.dumps([inp["dgm1"], inp["dgm2"]]).encode()).hexdigest()[:16],
        "nontrivial": n_real == 2 and len(inp["dgm1"]) + len(inp["dgm2"]) >= 3 and len(results) >= 2,
        "probes": {
            "pair_views_of_one_buffer": shared_used, "concurrent_batches": cstats.get("concurrent_batches", 0),
            "thread_switches": cstats.get("thread_switches", 0),
            "orders_gave_different_valid_matchings": int(len(distinct_matchings) > 1),
            "matching_mixes_cross_and_diagonal": int(any(
                any(r[0] >= 0 and r[1] >= 0 for r in rows) and any(r[0] < 0 or r[1] < 0 for r in rows)
                for _, rows, _ in results)),
            "empty_side_placeholder": int(n_real < 2),
            "both_empty": int(n_real == 0),
            "wasserstein_mixes_cross_and_diagonal": int(
                any(r[0] >= 0 and r[1] >= 0 for r in rows_w) and any(r[0] < 0 or r[1] < 0 for r in rows_w)),
            "size_ge_40": int(len(S) + len(T) >= 40),
        },
        "faults": {"set_iterations_ordered": simset.CTX.iters, "non_insertion_choices": simset.CTX.permuted,
                   "cases_with_call_history": int(n_prelude > 0)},
    }


def shrink_candidates(case):
    from props import c01
    cfg = case["config"]
    if cfg.get("plain_mode") not in (None, "insertion"):
        c = copy.deepcopy(case)
        c["config"]["plain_mode"] = "insertion"
        yield c
    yield from c01.shrink_candidates(case)


def extra_phase(ctx):
    from props import hashsweep
    return hashsweep.sweep(__name__, ctx, n_cases=120 if ctx["tier"] == "quick" else 400,
                           n_seeds=4 if ctx["tier"] == "quick" else 64)
