"""Swarm-style generator of persistence diagrams (shared by several properties).

Diagrams are stored in cases as lists of [birth, death] floats (JSON keeps Python
floats exactly; Infinity is allowed) plus a representation tag.
"""
import math

import numpy as np

INF = float("inf")


def _ulp_nudge(rng, x):
    k = rng.choice((-2, -1, 1, 2))
    for _ in range(abs(k)):
        x = math.nextafter(x, INF if k > 0 else -INF)
    return x


def gen_points(rng, n, style, scale=1.0, shift=0.0):
    pts = []
    for _ in range(n):
        if style == "lattice":          # dense ties among candidate thresholds
            b = rng.randint(0, 6) * 0.5
            d = b + rng.randint(0, 6) * 0.5
        elif style == "ilattice":       # integral -> also representable as int arrays
            b = float(rng.randint(0, 5))
            d = b + float(rng.randint(0, 5))
        elif style == "decimal":        # decimal grid: ties that are broken only by inexact binary arithmetic
            b = rng.randint(0, 30) * 0.1
            d = b + rng.randint(0, 60) * 0.1
        elif style == "float":
            b = rng.random()
            d = b + rng.random() * rng.choice((0.01, 0.3, 1.0))
        elif style == "narrow":         # all persistences similar: many near-ties
            b = rng.random()
            d = b + 0.25 + rng.random() * 1e-3
        elif style == "late-short":     # late-born, short-lived classes: persistence << coordinates
            b = 100.0 + 900.0 * rng.random()
            d = b * (1.0 + 10.0 ** (-rng.uniform(3.0, 6.5)))
        else:
            raise ValueError(style)
        pts.append([b * scale + shift, d * scale + shift])
    return pts


def gen_diagram(rng, max_n, style=None, allow_inf=True, allow_diag=True, scale=None, shift=None):
    style = style or rng.choice(("lattice", "lattice", "ilattice", "float", "narrow", "late-short", "decimal", "decimal"))
    if scale is None:
        scale = rng.choice((1.0, 1.0, 1.0, 1e-6, 1e-3, 7.0, 1e3, 1e6))
    if shift is None:
        shift = rng.choice((0.0, 0.0, 0.0, -3.0, 2.5)) * scale
    r = rng.random()
    if r < 0.08:
        n = 0
    elif r < 0.5:
        n = rng.randint(1, max(1, min(4, max_n)))
    else:
        n = rng.randint(1, max(1, max_n))
    pts = gen_points(rng, n, style, scale, shift)
    # repeated points
    if pts and rng.random() < 0.3:
        for _ in range(rng.randint(1, 2)):
            if len(pts) < max_n:
                pts.append(list(rng.choice(pts)))
    # points on the diagonal
    if allow_diag and rng.random() < 0.25 and len(pts) < max_n:
        b = rng.choice(pts)[0] if pts else 0.0
        pts.append([b, b])
    # near ties: nudge a coordinate by an ulp or two
    if pts and rng.random() < 0.15:
        i = rng.randrange(len(pts))
        p = list(pts[i])
        p[1] = max(_ulp_nudge(rng, p[1]), p[0])
        pts.append(p) if len(pts) < max_n else None
    # infinite deaths
    if allow_inf and rng.random() < 0.15:
        for _ in range(rng.randint(1, 2)):
            b = (rng.choice(pts)[0] if pts else 0.0)
            if pts and rng.random() < 0.3:      # an essential class born after every finite class has died
                b = max(q[1] for q in pts if math.isfinite(q[1])) + rng.choice((0.5, 1.0, 3.0)) * scale \
                    if any(math.isfinite(q[1]) for q in pts) else b
            pts.insert(rng.randrange(len(pts) + 1), [b, INF])
    rng.shuffle(pts)
    return pts, style, scale, shift


def perturbed_copy(rng, A, scale, max_n, style):
    """B = A with most points moved a little, some dropped, some new ones: the
    typical 'two noisy samples of one space' pair, whose optimum is a cross cost."""
    B = []
    lattice = style in ("lattice", "ilattice")
    for p in A:
        if not math.isfinite(p[1]):
            if rng.random() < 0.5:
                B.append(list(p))
            continue
        r = rng.random()
        if r < 0.12:
            continue
        if style == "decimal":
            x = rng.choice((0.1, 0.1, 0.2, 0.3, 0.0)) * scale
            if rng.random() < 0.6:          # nested interval (b+x, d-x)
                q = [p[0] + x, p[1] - x]
            else:
                q = [p[0] + x * rng.choice((-1, 0, 1)), p[1] + x * rng.choice((-1, 0, 1))]
        elif lattice:
            step = (0.5 if style == "lattice" else 1.0) * scale
            q = [p[0] + step * rng.choice((-1, 0, 0, 1)), p[1] + step * rng.choice((-1, 0, 0, 1))]
        else:
            eps = rng.choice((1e-3, 0.02, 0.1)) * scale
            q = [p[0] + eps * (rng.random() - 0.5), p[1] + eps * (rng.random() - 0.5)]
        if q[1] < q[0]:
            q[1] = q[0]
        B.append(q)
    while len(B) < max_n and rng.random() < 0.3:
        B.extend(gen_points(rng, 1, style, scale, 0.0))
    rng.shuffle(B)
    return B[:max_n]


def repaired_copy(rng, A):
    """Same multiset of births and same multiset of deaths, paired differently."""
    fin = [p for p in A if math.isfinite(p[1])]
    bs = sorted(p[0] for p in fin)
    ds = sorted(p[1] for p in fin)
    # any pairing of sorted births with a permutation of deaths that keeps d >= b: rotate within
    # the feasible suffix
    out = []
    rest = ds[:]
    for b in reversed(bs):
        ok = [d for d in rest if d >= b]
        d = rng.choice(ok)
        rest.remove(d)
        out.append([b, d])
    rng.shuffle(out)
    return out


def gen_pair(rng, max_n, allow_inf=True):
    A, style, scale, shift = gen_diagram(rng, max_n, allow_inf=allow_inf)
    r = rng.random()
    if r < 0.1 and len(A) >= 2:
        return A, repaired_copy(rng, A)
    if r < 0.45:
        return A, perturbed_copy(rng, A, scale, max_n, style)
    if rng.random() < 0.7:
        B, _, _, _ = gen_diagram(rng, max_n, style=style, scale=scale, shift=shift, allow_inf=allow_inf)
    else:
        B, _, _, _ = gen_diagram(rng, max_n, scale=scale, shift=shift, allow_inf=allow_inf)
    # shared points / small perturbations of A's points in B
    fa = [p for p in A if math.isfinite(p[1])]
    if fa and rng.random() < 0.4:
        for _ in range(rng.randint(1, min(3, len(fa)))):
            p = list(rng.choice(fa))
            if rng.random() < 0.5:
                eps = rng.choice((0.5, 0.25, 1e-3)) * scale
                p = [p[0] + eps * rng.choice((-1, 0, 1)), p[1] + eps * rng.choice((0, 1))]
                if p[1] < p[0]:
                    p[1] = p[0]
            if len(B) < max_n:
                B.append(p)
        rng.shuffle(B)
    return A, B


def representation(rng, pts):
    """One of the accepted input forms for this diagram."""
    opts = ["f64", "f64", "list", "view", "fortran"]
    if pts and all(math.isfinite(x) and abs(x) < 6e4 for p in pts for x in p):
        # narrow floats: the diagram *is* the rounded values (oracles must start from the materialised array)
        opts += ["f32", "f16"]
    if pts and all(math.isfinite(x) and float(x).is_integer() and abs(x) < 2 ** 31 for p in pts for x in p):
        opts += ["i64", "ilist", "i32"]
        if all(0 <= x <= 65535 for p in pts for x in p):
            opts += ["u16"]
        if all(0 <= x <= 255 for p in pts for x in p):
            opts += ["u8", "u8"]          # e.g. diagrams of 8-bit images
    return rng.choice(opts)


def materialize(pts, rep="f64"):
    """Build the Python object handed to persim."""
    if rep in ("i64", "ilist", "u8", "i32", "u16"):
        from sim.sched import InvalidCase
        if not pts or not all(math.isfinite(x) and float(x).is_integer() for p in pts for x in p):
            raise InvalidCase("integer representation of a non-integral diagram")
    if rep == "f64":
        return np.array(pts, dtype=np.float64).reshape(-1, 2) if pts else np.zeros((0, 2))
    if rep == "i64":
        return np.array(pts, dtype=np.int64).reshape(-1, 2)
    if rep == "view":          # a non-contiguous (n, 2) view into a wider array
        base = np.full((len(pts), 5), -7.5)
        if pts:
            base[:, 1:4:2] = np.array(pts, dtype=np.float64).reshape(-1, 2)
        return base[:, 1:4:2]
    if rep == "fortran":
        return np.asfortranarray(np.array(pts, dtype=np.float64).reshape(-1, 2)) if pts else np.zeros((0, 2), order="F")
    if rep in ("f32", "f16"):
        dt = np.float32 if rep == "f32" else np.float16
        a = np.array(pts, dtype=np.float64).reshape(-1, 2).astype(dt) if pts else np.zeros((0, 2), dtype=dt)
        # rounding must not produce death < birth or an overflow to inf
        if len(a) and (not np.isfinite(a[:, 0]).all() or np.any(a[:, 1] < a[:, 0])):
            from sim.sched import InvalidCase
            raise InvalidCase("narrow-float rounding broke birth <= death")
        return a
    if rep in ("i32", "u16"):
        from sim.sched import InvalidCase
        if rep == "u16" and not all(0 <= x <= 65535 for p in pts for x in p):
            raise InvalidCase("uint16 range")
        return np.array(pts, dtype=np.int32 if rep == "i32" else np.uint16).reshape(-1, 2)
    if rep == "u8":
        from sim.sched import InvalidCase
        if not all(0 <= x <= 255 for p in pts for x in p):
            raise InvalidCase("uint8 representation needs values in 0..255")
        return np.array(pts, dtype=np.uint8).reshape(-1, 2)
    if rep == "list":
        return [[float(x) for x in p] for p in pts]
    if rep == "ilist":
        return [[int(x) for x in p] for p in pts]
    raise ValueError(rep)


SHARED = ("cols4", "interleave", "stacked", "window")


def shared_views(ptsA, ptsB, how):
    """Two float64 (n, 2) diagrams living in ONE buffer (columns of a wide table, interleaved rows, consecutive
    blocks, overlapping windows of one long diagram).  Returns (viewA, viewB) or None if this pair cannot be laid out
    that way (then the caller uses separate arrays)."""
    if not ptsA or not ptsB:
        return None
    A = np.array(ptsA, dtype=np.float64).reshape(-1, 2)
    B = np.array(ptsB, dtype=np.float64).reshape(-1, 2)
    n, m = len(A), len(B)
    if how == "cols4" and n == m:
        buf = np.empty((n, 4))
        buf[:, 0:2], buf[:, 2:4] = A, B
        return buf[:, 0:2], buf[:, 2:4]
    if how == "interleave" and n == m:
        buf = np.empty((2 * n, 2))
        buf[0::2], buf[1::2] = A, B
        return buf[0::2], buf[1::2]
    if how == "window" and n == m:
        # B is A moved on by k rows in one longer diagram
        for k in range(1, n):
            if np.array_equal(A[k:], B[:n - k], equal_nan=True):
                buf = np.vstack([A, B[n - k:]])
                return buf[:n], buf[k:k + n]
        return None
    if how == "stacked":
        buf = np.vstack([A, B])
        return buf[:n], buf[n:]
    return None


def check_diagram_json(pts):
    from sim.sched import InvalidCase
    if not isinstance(pts, list):
        raise InvalidCase("diagram must be a list")
    for p in pts:
        if not (isinstance(p, list) and len(p) == 2 and all(isinstance(x, (int, float)) for x in p)):
            raise InvalidCase("diagram rows must be [b, d]")
        if math.isnan(p[0]) or math.isnan(p[1]) or not math.isfinite(p[0]) or p[1] < p[0]:
            raise InvalidCase("need finite birth <= death")


def gen_u8_pair(rng, max_n):
    """Two diagrams with integer coordinates in 0..255 (persistence of 8-bit data), meant to be handed over as
    unsigned 8-bit arrays on both sides."""
    def one():
        n = rng.randint(1, max(1, min(max_n, 8)))
        pts = []
        for _ in range(n):
            b = rng.randint(0, 250)
            pts.append([float(b), float(rng.randint(b, 255))])
        return pts
    A = one()
    B = one() if rng.random() < 0.5 else [[float(min(255, max(0, p[0] + rng.randint(-12, 12)))), 0.0] for p in A]
    for q, p in zip(B, A):
        if q[1] == 0.0:
            q[1] = float(min(255, max(q[0], p[1] + rng.randint(-12, 12))))
    return A, B


def as_points(obj):
    """The float64 point list a materialised diagram denotes (exact for every dtype)."""
    a = np.asarray(obj, dtype=np.float64)
    return a.reshape(-1, 2).tolist() if a.size else []
