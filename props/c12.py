"""C12 - imager geometry stays self-consistent under any configuration history.

No scheduling nondeterminism exists here (DESIGN.md section 0): what is searched
is the space of *histories* - constructor / range assignments / pixel-size
assignments / fits, over several imagers alive at once, with long feedback chains
of re-derived state and idempotent re-assignments - checked after every step
through public attributes and `transform` only."""
import copy
import hashlib
import json
import math
from fractions import Fraction

import numpy as np

from sim.sched import InvalidCase, Violation

ID = "C12"
TITLE = "Imager geometry stays self-consistent under any configuration history"
CASE_TIMEOUT_S = 60.0
PLAN = {
    "quick": {"runs": 24000, "chunk": 50, "shrink_s": 30.0},
    "thorough": {"budget_s": 600.0, "chunk": 50, "shrink_s": 60.0},
}
RULE = ("case = history of 1..12 operations over K=1..3 PersistenceImager instances interleaved by the scheduler: "
        "constructor(birth_range, pers_range, pixel_size), birth_range=, pers_range=, pixel_size=, fit(diagrams, skew), "
        "re-assignment of the currently reported range; arguments biased to quotients that are not exactly "
        "representable (k*p for p in 0.1, 0.2, 0.3, 0.7, 1/3, 0.05...), non-multiples, scales 1e-3..1e3, negative births, "
        "int and float arguments. After every operation: width/height == extent of the reported ranges, "
        "resolution*pixel_size == (width, height), transform output shape == resolution, narrow-kernel edge probes at "
        "boundaries computed in rational arithmetic from the reported range and pixel size (pixels are squares of the "
        "configured size), covered ranges contain the request and exceed it by <= one pixel. distinct_nontrivial = "
        "distinct histories with >= 3 operations containing at least one inexact-quotient or non-multiple request.")
ASSUMPTIONS = [
    "only operations inside the property's stated domain are generated (positive extents, positive pixel size, fit data "
    "spanning a positive extent in birth and persistence); failed assignments are not injected",
    "tolerances: identities rel 1e-9; an edge probe sits 1% of a pixel from the boundary with a Gaussian of sd 0.2% of a "
    "pixel and must find >= 99% of the mass on the expected side",
    "no scheduling nondeterminism exists for this property; simulation contributes seeded search over interleaved "
    "histories against a reference model, with minimised replayable histories",
    "sampling, not proof",
]
REAL_COMPONENTS = ["persim.images.PersistenceImager (working tree): constructor, setters, fit, transform", "numpy"]
STUB_COMPONENTS = []

PIXELS = (0.1, 0.2, 0.3, 0.7, 1.0 / 3.0, 0.05, 0.25, 0.75, 1.0, 0.15, 0.6, 1.1, 2.0, 0.45)
SCALES = (1.0, 1.0, 1.0, 1e-3, 1e3, 16.0)


def imager_cls():
    import sys
    import persim  # noqa: F401
    return sys.modules["persim.images"].PersistenceImager


# ---------------------------------------------------------------- generation
def gen_pixel(rng, scale):
    if rng.random() < 0.85:
        return rng.choice(PIXELS) * scale
    return (0.05 + rng.random()) * scale


def gen_range(rng, p, scale, kind=None):
    kind = kind or rng.choice(("multiple", "multiple", "nonmultiple", "random", "tiny-excess"))
    a = rng.choice((0.0, 0.0, -1.0, 0.1, 0.5, -0.3, 2.0, rng.random() * 4 - 2)) * scale
    if rng.random() < 0.15:
        a = float(round(a))
    k = rng.randint(1, 12)
    if kind == "multiple":
        b = a + k * p
    elif kind == "nonmultiple":
        b = a + (k - 1 + rng.choice((0.5, 0.3, 0.9, 0.01, 0.99))) * p
    elif kind == "tiny-excess":
        b = math.nextafter(a + k * p, math.inf if rng.random() < 0.5 else -math.inf)
    else:
        b = a + (0.05 + rng.random() * 10) * p
    if not b > a:
        b = a + p
    if rng.random() < 0.12 and float(a).is_integer() and float(b).is_integer():
        return [int(a), int(b)]
    return [a, b]


INT_FORMS = ("ilist", "i64", "i32", "u16", "i8", "u8", "i16")
NARROW_TOP = {"i8": (60, 100, 127), "u8": (150, 200, 255), "i16": (16000, 16040, 32767), "u16": (32000, 32040, 60000)}
FLOAT_FORMS = ("f64", "f64", "list", "f32", "fortran", "colsT")


def gen_fit_data(rng, p, scale):
    nd = rng.randint(1, 3)
    dgms = []
    b0 = rng.choice((0.0, -1.0, 0.2, 0.5)) * scale
    # a third of the fits hand over a mixed bag of representations (integer arrays / nested int lists next to float
    # arrays): only where integer coordinates give a sane number of pixels
    mixed = p >= 0.05 and scale >= 1.0 and rng.random() < 0.4
    forms = []
    for _ in range(nd):
        n = rng.randint(1, 5)
        d = []
        integer = mixed and rng.random() < 0.5
        for _ in range(n):
            b = b0 + rng.randint(0, 10) * p * rng.choice((1.0, 1.0, 0.5, 1.3)) + rng.choice((0.0, 0.0, rng.random() * p))
            pers = rng.randint(0, 8) * p * rng.choice((1.0, 1.0, 0.7)) + rng.choice((0.0, rng.random() * p))
            if integer:
                b = int(math.floor(b0)) + rng.randint(0, 9)
                pers = rng.randint(0, 7)
            d.append([b, b + pers])
        dgms.append(d)
        if integer:
            forms.append(rng.choice(INT_FORMS[:4] if all(q[0] >= 0 for q in d) else INT_FORMS[:3]))
        else:
            forms.append(rng.choice(FLOAT_FORMS) if mixed or rng.random() < 0.3 else "f64")
    if p >= 0.5 and scale == 1.0 and rng.random() < 0.12:
        # data as a narrow integer array whose values sit near the top of the type: every coordinate and every
        # difference is representable, sums of two coordinates are not
        f_ = rng.choice(sorted(NARROW_TOP))
        lo_, hi_, top_ = NARROW_TOP[f_]
        dgms, forms = [], []
        for _ in range(nd):
            d = []
            for _ in range(rng.randint(2, 5)):
                b = rng.randint(lo_, hi_)
                d.append([b, min(top_, b + rng.randint(0, 25))])
            dgms.append(d)
            forms.append(f_)
    # guarantee positive extent in birth and persistence
    flat = [q for d in dgms for q in d]
    def ext(f):
        v = [f(q) for q in flat]
        return max(v) - min(v)
    # positive extent in birth, in death (skew=False reads the second column as is) and in persistence
    if ext(lambda q: q[0]) <= 0 or ext(lambda q: q[1]) <= 0 or ext(lambda q: q[1] - q[0]) <= 0:
        hi_b = max(q[0] for q in flat)
        hi_p = max(q[1] - q[0] for q in flat)
        q = [hi_b + 2 * p, hi_b + 2 * p + hi_p + 3 * p]
        if forms[0] in INT_FORMS:
            q = [int(math.ceil(q[0])) + 1, int(math.ceil(q[0])) + 1 + int(math.ceil(hi_p + 3 * p)) + 1]
        if forms[0] in NARROW_TOP and q[1] > NARROW_TOP[forms[0]][2]:
            lo_b = min(x[0] for x in flat)
            q = [lo_b - 3, lo_b - 3 + int(math.ceil(hi_p)) + 2]          # extend downwards instead
        dgms[0].append(q)
    single = nd == 1 and rng.random() < 0.5
    data = {"dgms": dgms, "forms": forms, "single": single, "skew": rng.random() < 0.7}
    # the guarantee must hold for the values the handed-over objects denote: single precision can merge coordinates
    # that differ in float64 (e.g. 500.001 / 500.003); such data fall back to float64 arrays
    if not fit_extent_ok(data):
        data["forms"] = ["f64" if f == "f32" else f for f in forms]
    return data


def fit_extent_ok(data):
    """Positive extent in birth, death and persistence - also in the arithmetic of the handed-over dtype: two
    persistences that differ by 1e-8 in float64 are equal when the float32 diagram is skewed in float32."""
    given, vals, _ = materialize_fit(data)
    allp = np.vstack(vals)
    cols = [allp[:, 0], allp[:, 1], allp[:, 1] - allp[:, 0]]
    g32 = [np.asarray(g) for g in given if isinstance(g, np.ndarray) and g.dtype == np.float32]
    if g32:
        a32 = np.vstack([np.asarray(v, dtype=np.float32) for v in vals])
        cols.append(a32[:, 1] - a32[:, 0])
        cols.append(a32[:, 0])
    scale = float(np.abs(allp).max()) if allp.size else 1.0
    return all(float(c.max()) - float(c.min()) > (1e-6 * scale if g32 else 0.0) for c in cols)


def materialize_fit(d):
    """the diagrams as handed to fit, and the float64 values they denote (the oracle's view)"""
    forms = d.get("forms") or ["f64"] * len(d["dgms"])
    if len(forms) != len(d["dgms"]):
        raise InvalidCase("forms")
    given, vals, atol = [], [], 0.0
    for x, f in zip(d["dgms"], forms):
        a = np.array(x, dtype=float).reshape(-1, 2)
        if f in INT_FORMS:
            if not np.all(a == np.round(a)) or (f == "u16" and (a.min() < 0 or a.max() > 60000)) or np.abs(a).max() > 2 ** 30:
                raise InvalidCase("integer form needs integer coordinates")
            if f in ("i8", "u8", "i16"):
                info_ = np.iinfo({"i8": np.int8, "u8": np.uint8, "i16": np.int16}[f])
                if a.min() < info_.min or a.max() > info_.max:
                    raise InvalidCase("value outside the integer type")
            g = [[int(v) for v in row] for row in a] if f == "ilist" else a.astype(
                {"i64": np.int64, "i32": np.int32, "u16": np.uint16, "i8": np.int8, "u8": np.uint8, "i16": np.int16}[f])
        elif f == "f32":
            g = a.astype(np.float32)
            a = g.astype(float)
            atol = max(atol, 2.5e-7 * float(np.abs(a).max()))
        elif f == "list":
            g = a.tolist()
        elif f == "fortran":
            g = np.asfortranarray(a)
        elif f == "colsT":
            g = np.vstack((a[:, 0], a[:, 1])).T          # a (2, n) array seen as (n, 2): Fortran-ordered view
        elif f == "f64":
            g = a
        else:
            raise InvalidCase("form")
        given.append(g)
        vals.append(a)
    return given, vals, atol


def reset_world():
    from sim import world
    world.reload_persim(("persim.images_kernels", "persim.images_weights", "persim.images"))


def gen_case(rng, tier):
    K = rng.choice((1, 1, 2, 3))
    scale = rng.choice(SCALES)
    ops = []
    p_of = {}
    for k in range(K):
        args = {}
        if rng.random() < 0.9:
            p = gen_pixel(rng, scale)
            args["pixel_size"] = int(p) if float(p).is_integer() and rng.random() < 0.3 else p
            sc = scale
        else:
            p, sc = 0.2, 1.0                       # default pixel size
        p_of[k] = p
        # omitted ranges default to (0, 1): only leave them out when that is a sane number of pixels
        can_omit = 1.0 / p <= 50
        if not (can_omit and rng.random() < 0.15):
            args["birth_range"] = gen_range(rng, p, sc)
        if not (can_omit and rng.random() < 0.15):
            args["pers_range"] = gen_range(rng, p, sc)
        ops.append({"inst": k, "op": "ctor", "args": args})
    n = rng.randint(0, 11 if tier == "quick" else 30)
    for _ in range(n):
        k = rng.randrange(K)
        kind = rng.choice(("birth", "pers", "pixel", "pixel", "fit", "re-birth", "re-pers", "birth", "pers"))
        if kind == "birth":
            ops.append({"inst": k, "op": "birth_range=", "val": gen_range(rng, p_of[k], scale)})
        elif kind == "pers":
            ops.append({"inst": k, "op": "pers_range=", "val": gen_range(rng, p_of[k], scale)})
        elif kind == "pixel":
            p_of[k] = gen_pixel(rng, scale)
            ops.append({"inst": k, "op": "pixel_size=", "val": p_of[k]})
        elif kind == "fit":
            earlier = [o["data"] for o in ops if o["op"] == "fit" and o["inst"] == k]
            if earlier and rng.random() < 0.4:
                # a refit on the data of an earlier fit of this instance (after whatever happened in between), or on
                # other data with the same extremes (same bounding box, different interior points)
                import copy as _copy
                d_ = _copy.deepcopy(rng.choice(earlier))
                if rng.random() < 0.5 and all(f in ("f64", "list", "fortran", "colsT") for f in d_["forms"]):
                    flat_ = [q for x in d_["dgms"] for q in x]
                    lo_b, hi_b = min(q[0] for q in flat_), max(q[0] for q in flat_)
                    lo_p, hi_p = min(q[1] - q[0] for q in flat_), max(q[1] - q[0] for q in flat_)
                    b_ = lo_b + (hi_b - lo_b) * rng.random()
                    p_ = lo_p + (hi_p - lo_p) * rng.random()
                    if p_ >= 0:
                        d_["dgms"][0].append([b_, b_ + p_])
                if not fit_extent_ok(d_):
                    d_["forms"] = ["f64" if f == "f32" else f for f in d_["forms"]]
                ops.append({"inst": k, "op": "fit", "data": d_})
            else:
                ops.append({"inst": k, "op": "fit", "data": gen_fit_data(rng, p_of[k], scale)})
        elif kind == "re-birth":
            ops.append({"inst": k, "op": "reassign", "which": "birth_range"})
        else:
            ops.append({"inst": k, "op": "reassign", "which": "pers_range"})
    # interleave constructors with later ops of other instances a little
    return {"inputs": {}, "ops": ops, "config": {"probe_interior": rng.randint(1, 3), "probe_kernel": rng.choice(("iso", "iso", "general")),
                                                  "interleave": rng.choice(("scheduler", "scheduler", "as-listed"))}}


# ---------------------------------------------------------------- oracle
def classify(extent, p):
    """coarse discriminator of a request: exact / inexact-quotient / non-multiple"""
    q = extent / p
    r = round(q)
    if r >= 1 and q == r and r * p == extent:
        return "exact-multiple"
    if r >= 1 and abs(q - r) < 1e-9:
        return "inexact-quotient"
    return "non-multiple"


def _tol(*xs):
    return 1e-9 * max([abs(float(x)) for x in xs] + [1e-300])


def probe_transform(im, x, y):
    img = im.transform(np.array([[x, y]], dtype=float), skew=False)
    return np.asarray(img, dtype=float)


PROBE_GENERAL = [False]


def edge_probes(im, site, discr, sched, n_interior, opi):
    ps = float(im.pixel_size)
    res = tuple(int(r) for r in im.resolution)
    b0, p0 = float(im.birth_range[0]), float(im.pers_range[0])
    delta = 0.01 * ps
    saved = im.kernel_params
    v_ = (delta / 5.0) ** 2
    # the same narrow kernel either as a scalar variance (persim's fast isotropic path) or as a covariance matrix that
    # is anisotropic by one part in a million (the general path over the pixel-corner mesh)
    im.kernel_params = {"sigma": v_} if not PROBE_GENERAL[0] else {"sigma": np.array([[v_, 0.0], [0.0, v_ * (1.0 + 1e-6)]])}
    n_probes = 0
    try:
        for axis, (lo, n) in enumerate(((b0, res[0]), (p0, res[1]))):
            idxs = [0, n]
            for _ in range(n_interior):
                if n > 1:
                    idxs.append(1 + sched.choose(n - 1, "probe"))
            other_n = res[1 - axis]
            other_lo = p0 if axis == 0 else b0
            for i in idxs:
                B = float(Fraction(lo) + i * Fraction(ps))
                oj = sched.choose(other_n, "probe-row") if other_n > 1 else 0
                oc = float(Fraction(other_lo) + (Fraction(2 * oj + 1) / 2) * Fraction(ps))
                for side in (+1, -1):
                    t = B + side * delta
                    x, y = (t, oc) if axis == 0 else (oc, t)
                    img = probe_transform(im, x, y)
                    n_probes += 1
                    if img.shape != res:
                        raise Violation("image-shape==resolution", site, discr,
                                        "transform returned shape %r, resolution is %r" % (img.shape, res), opi)
                    mass = img.sum(axis=1 - axis)      # per index along `axis`
                    total = float(mass.sum())
                    col = i if side > 0 else i - 1
                    name = "birth" if axis == 0 else "persistence"
                    if 0 <= col < n:
                        got = float(mass[col])
                        if not got >= 0.99:
                            where = int(np.argmax(mass)) if total > 0.5 else None
                            raise Violation("pixels-are-squares-of-pixel_size", site, discr,
                                            "a point %.3g pixel %s %s boundary #%d (= %s_range[0] + %d*pixel_size = %r) must "
                                            "fall into pixel %d of %d, which received %.4f of its mass (%s); reported "
                                            "birth_range=%r pers_range=%r pixel_size=%r resolution=%r"
                                            % (0.01, "above" if side > 0 else "below", name, i, name, i, B, col, n, got,
                                               "pixel %r got it" % where if where is not None else "mass left the image",
                                               tuple(map(float, im.birth_range)), tuple(map(float, im.pers_range)), ps, res), opi)
                    else:
                        if not total <= 0.01:
                            raise Violation("pixels-are-squares-of-pixel_size", site, discr,
                                            "a point just outside the reported %s range (boundary #%d = %r, %s) still puts "
                                            "%.4f of its mass into the image; reported birth_range=%r pers_range=%r "
                                            "pixel_size=%r resolution=%r"
                                            % (name, i, B, "above" if side > 0 else "below", total,
                                               tuple(map(float, im.birth_range)), tuple(map(float, im.pers_range)), ps, res), opi)
    finally:
        im.kernel_params = saved
    return n_probes


def check_state(im, site, discr, sched, n_interior, opi, request, atol=0.0):
    """request = dict(birth=(lo,hi) or None, pers=(lo,hi) or None): what the last
    operation asked the ranges to contain.  atol: non-zero for an imager that was fitted on single-precision
    diagrams (its range endpoints are then single-precision numbers): slack of a few float32 ulps of the geometry."""
    ps = float(im.pixel_size)
    br = tuple(float(x) for x in im.birth_range)
    pr = tuple(float(x) for x in im.pers_range)
    w, h = float(im.width), float(im.height)
    res = im.resolution
    state = "birth_range=%r pers_range=%r pixel_size=%r width=%r height=%r resolution=%r" % (br, pr, ps, w, h, tuple(res))
    if atol:
        atol = 2.5e-7 * max(abs(v) for v in br + pr + (ps, w, h))
    if not (len(res) == 2 and all(isinstance(r, (int, np.integer)) and r >= 1 for r in res)):
        raise Violation("resolution-positive-integers", site, discr, state, opi)
    for nm, val, rng_ in (("width", w, br), ("height", h, pr)):
        ext = rng_[1] - rng_[0]
        if not abs(val - ext) <= _tol(val, ext, rng_[0], rng_[1], ps) + 2 * atol:
            raise Violation("%s==extent-of-range" % nm, site, discr, "%s=%r but reported range spans %r; %s" % (nm, val, ext, state), opi)
    for nm, val, r in (("width", w, res[0]), ("height", h, res[1])):
        if not abs(r * ps - val) <= _tol(val, ps) * max(1, r) + 2 * atol:
            raise Violation("resolution*pixel_size==%s" % nm, site, discr,
                            "%d * %r = %r but %s = %r; %s" % (r, ps, r * ps, nm, val, state), opi)
    for nm, got, req in (("birth", br, request.get("birth")), ("pers", pr, request.get("pers"))):
        if req is None:
            continue
        lo, hi = float(req[0]), float(req[1])
        t = _tol(lo, hi, ps, got[0], got[1]) + 2 * atol
        if not (got[0] <= lo + t and got[1] >= hi - t):
            raise Violation("covers-request", site, discr + "/" + nm,
                            "%s range %r does not contain the requested %r; %s" % (nm, got, (lo, hi), state), opi)
        excess = (got[1] - got[0]) - (hi - lo)
        if not excess <= ps * (1 + 1e-9) + t:
            raise Violation("excess<=one-pixel", site, discr + "/" + nm,
                            "%s range %r exceeds the requested %r by %r > pixel_size %r; %s" % (nm, got, (lo, hi), excess, ps, state), opi)
    # "every image produced has exactly the reported resolution": also inside a collection, also for an empty diagram
    mid = [(br[0] + br[1]) / 2.0, (pr[0] + pr[1]) / 2.0]
    imgs = im.transform([np.array([mid]), np.zeros((0, 2)), np.array([mid, mid])], skew=False)
    for q, img in enumerate(imgs):
        if tuple(np.shape(img)) != tuple(int(r) for r in res):
            raise Violation("image-shape==resolution", site, discr + ("/empty-in-collection" if q == 1 else "/in-collection"),
                            "image #%d of a collection has shape %r, resolution is %r; %s" % (q, np.shape(img), tuple(res), state), opi)
    # ... and for an empty diagram handed over alone
    img0 = im.transform(np.zeros((0, 2)), skew=False)
    if tuple(np.shape(img0)) != tuple(int(r) for r in res):
        raise Violation("image-shape==resolution", site, discr + "/empty-alone",
                        "image of an empty diagram has shape %r, resolution is %r; %s" % (np.shape(img0), tuple(res), state), opi)
    return edge_probes(im, site, discr, sched, n_interior, opi)


def _as_range(v):
    if not (isinstance(v, list) and len(v) == 2 and all(isinstance(x, (int, float)) and not isinstance(x, bool) for x in v)):
        raise InvalidCase("range")
    if not (math.isfinite(v[0]) and math.isfinite(v[1]) and v[1] > v[0]):
        raise InvalidCase("range must have positive extent")
    return (v[0], v[1])


def _as_pixel(v):
    if not isinstance(v, (int, float)) or isinstance(v, bool) or not math.isfinite(v) or v <= 0:
        raise InvalidCase("pixel size")
    return v


def run_case(case, sched):
    PI = imager_cls()
    ops = case["ops"]
    if not ops:
        raise InvalidCase("empty history")
    n_interior = int(case["config"].get("probe_interior", 1))
    pk = case["config"].get("probe_kernel", "iso")
    if pk not in ("iso", "general"):
        raise InvalidCase("probe_kernel")
    PROBE_GENERAL[0] = pk == "general"
    ims = {}
    n_probes = 0
    hard = 0
    skipped = 0
    kinds = set()
    prec = {}
    forms_used = set()
    mixed_fits = 0
    from sim.sched import interleave
    for opi, op in interleave(sched, ops, "inst", case["config"].get("interleave", "as-listed")):
        k = op.get("inst")
        kind = op.get("op")
        kinds.add(kind)
        request = {}
        try:
            if kind == "ctor":
                if k in ims:
                    raise InvalidCase("second constructor")
                a = op.get("args") or {}
                kw = {}
                p = 0.2
                if "pixel_size" in a:
                    p = kw["pixel_size"] = _as_pixel(a["pixel_size"])
                br, pr = (0.0, 1.0), (0.0, 1.0)
                if "birth_range" in a:
                    br = kw["birth_range"] = _as_range(a["birth_range"])
                if "pers_range" in a:
                    pr = kw["pers_range"] = _as_range(a["pers_range"])
                if (br[1] - br[0]) / p > 400 or (pr[1] - pr[0]) / p > 400:
                    raise InvalidCase("too many pixels for a probe run")
                discr = "/".join(sorted({classify(br[1] - br[0], p), classify(pr[1] - pr[0], p)}))
                site = "constructor"
                ims[k] = PI(weight="linear_ramp", weight_params={"low": 1.0, "high": 1.0, "start": 0.0, "end": 1.0},
                            kernel="gaussian", kernel_params={"sigma": 1.0}, **kw)
                request = {"birth": br, "pers": pr}
            else:
                if k not in ims:
                    raise InvalidCase("operation on an imager that was never constructed")
                im = ims[k]
                if kind in ("birth_range=", "pers_range="):
                    v = _as_range(op["val"])
                    if (v[1] - v[0]) / float(im.pixel_size) > 400:
                        skipped += 1
                        continue
                    discr = classify(v[1] - v[0], float(im.pixel_size))
                    site = kind
                    setattr(im, kind[:-1], v)
                    request = {"birth" if kind[0] == "b" else "pers": v}
                elif kind == "pixel_size=":
                    v = _as_pixel(op["val"])
                    before = (tuple(map(float, im.birth_range)), tuple(map(float, im.pers_range)))
                    if max(before[0][1] - before[0][0], before[1][1] - before[1][0]) / v > 400:
                        skipped += 1
                        continue
                    discr = "/".join(sorted({classify(before[0][1] - before[0][0], v), classify(before[1][1] - before[1][0], v)}))
                    site = kind
                    im.pixel_size = v
                    request = {"birth": before[0], "pers": before[1]}
                elif kind == "reassign":
                    which = op.get("which")
                    if which not in ("birth_range", "pers_range"):
                        raise InvalidCase("which")
                    cur = tuple(getattr(im, which))
                    discr = "reported-range"
                    site = which + "=(reported)"
                    setattr(im, which, cur)
                    request = {"birth" if which[0] == "b" else "pers": tuple(map(float, cur))}
                elif kind == "fit":
                    d = op["data"]
                    if not d["dgms"] or any(len(x) == 0 for x in d["dgms"]):
                        raise InvalidCase("empty fit data")
                    given, dg, atol = materialize_fit(d)
                    allp = np.vstack(dg)
                    if d.get("skew", True):
                        allp = np.column_stack([allp[:, 0], allp[:, 1] - allp[:, 0]])
                    lo, hi = allp.min(axis=0), allp.max(axis=0)
                    if not (hi[0] > lo[0] and hi[1] > lo[1]) or not np.isfinite(allp).all() or not fit_extent_ok(d):
                        raise InvalidCase("fit data must span a positive extent")
                    if max(hi[0] - lo[0], hi[1] - lo[1]) / float(im.pixel_size) > 400:
                        skipped += 1
                        continue
                    discr = "/".join(sorted({classify(hi[0] - lo[0], float(im.pixel_size)),
                                             classify(hi[1] - lo[1], float(im.pixel_size))}))
                    site = "fit"
                    arg = given[0] if d.get("single") and len(given) == 1 else given
                    before_digest = repr(given)
                    im.fit(arg, skew=bool(d.get("skew", True)))
                    if repr(given) != before_digest:
                        raise Violation("input-untouched", "fit", "/".join(sorted(set(d.get("forms") or ["f64"]))),
                                        "fit modified the diagrams handed to it", opi)
                    prec[k] = max(prec.get(k, 0.0), 1.0 if atol else 0.0)
                    forms_used.update(d.get("forms") or ["f64"])
                    if len(set(type(g).__name__ + str(getattr(g, "dtype", "")) for g in given)) > 1:
                        mixed_fits += 1
                    request = {"birth": (float(lo[0]), float(hi[0])), "pers": (float(lo[1]), float(hi[1]))}
                else:
                    raise InvalidCase("unknown op")
        except (InvalidCase, Violation):
            raise
        except Exception as e:
            raise Violation("no-exception", kind, type(e).__name__,
                            "%s raised %s: %s" % (kind, type(e).__name__, str(e)[:300]), opi)
        if discr != "exact-multiple" and discr != "reported-range":
            hard += 1
        sched.note("op%d %s inst%d -> br=%r pr=%r ps=%r res=%r" % (
            opi, kind, k, tuple(map(float, ims[k].birth_range)), tuple(map(float, ims[k].pers_range)),
            float(ims[k].pixel_size), tuple(ims[k].resolution)))
        # the invariant is checked on *every* live imager after every operation:
        # bystanders must still be consistent (cross-instance leakage)
        for kk, im2 in ims.items():
            try:
                if kk == k:
                    n_probes += check_state(im2, site, discr, sched, n_interior, opi, request, prec.get(kk, 0.0))
                else:
                    n_probes += check_state(im2, "bystander-after-" + site, discr, sched, 0, opi, {}, prec.get(kk, 0.0))
            except (InvalidCase, Violation):
                raise
            except Exception as e:
                raise Violation("no-exception", "transform-after-" + site, type(e).__name__,
                                "probe transform raised %s: %s" % (type(e).__name__, str(e)[:300]), opi)
    return {
        "evals": len(ops), "ops": len(ops),
        "key": hashlib.sha1(json.dumps(ops, sort_keys=True).encode()).hexdigest()[:16],
        "nontrivial": len(ops) >= 3 and hard >= 1,
        "probes": {"edge_probe_transforms": n_probes, "inexact_or_nonmultiple_requests": hard,
                   "instances_ge_2": int(len(ims) >= 2), "history_has_fit": int("fit" in kinds),
                   "history_has_pixel_change": int("pixel_size=" in kinds), "history_has_reassign": int("reassign" in kinds),
                   "history_len_ge_8": int(len(ops) >= 8), "fits_on_mixed_representations": mixed_fits,
                   **{"fit_form_" + f: 1 for f in sorted(forms_used - {"f64"})},
                   "ops_skipped_over_400_pixels": skipped},
        "faults": {"interleaved_instances": int(len(ims) >= 2), "idempotent_reassignments": sum(1 for o in ops if o["op"] == "reassign")},
    }


def shrink_candidates(case):
    from sim import shrink as shr
    ops = case["ops"]
    for idx in shr.list_deletions(ops, min_len=1):
        c = copy.deepcopy(case)
        for i in reversed(idx):
            del c["ops"][i]
        yield c
    # merge instances into one
    insts = sorted({o["inst"] for o in ops})
    if len(insts) > 1:
        for k in insts[1:]:
            c = copy.deepcopy(case)
            c["ops"] = [o for o in c["ops"] if o["inst"] != k]
            yield c
    if case["config"].get("probe_interior", 1) > 0:
        c = copy.deepcopy(case)
        c["config"]["probe_interior"] = 0
        yield c
    for i, o in enumerate(ops):
        if o["op"] == "ctor":
            for key in list(o["args"]):
                c = copy.deepcopy(case)
                del c["ops"][i]["args"][key]
                yield c
        if o["op"] == "fit":
            d = o["data"]
            if any(f != "f64" for f in d.get("forms") or []):
                c = copy.deepcopy(case)
                c["ops"][i]["data"]["forms"] = ["f64"] * len(d["dgms"])
                yield c
            for j in range(len(d["dgms"])):
                if len(d["dgms"]) > 1:
                    c = copy.deepcopy(case)
                    del c["ops"][i]["data"]["dgms"][j]
                    if c["ops"][i]["data"].get("forms"):
                        del c["ops"][i]["data"]["forms"][j]
                    yield c
                for q in range(len(d["dgms"][j])):
                    if len(d["dgms"][j]) > 1:
                        c = copy.deepcopy(case)
                        del c["ops"][i]["data"]["dgms"][j][q]
                        yield c
    # simplify numbers
    for i, o in enumerate(ops):
        for path, v in shr._paths(o):
            if isinstance(v, list) or path[-1] == "inst":
                continue
            for nv in shr.simpler_numbers(v):
                c = copy.deepcopy(case)
                shr._set(c["ops"][i], path, nv)
                yield c
