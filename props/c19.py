"""C19 - the public API is pure, repeatable and representation-independent.

K logical clients issue calls drawn from a catalogue of every public entry point
over a shared pool of fixtures; the scheduler interleaves them, and between calls
the environment actor perturbs the process-global state other code in the same
interpreter also moves (pyplot's current figure, the warnings filter, the global
NumPy RNG).  Oracles: (1) no argument is modified, byte for byte, whether the
call returned or raised; (2) the result equals the result of the same call
executed *alone in a fork of the pristine zygote* (stateful estimators: after
replaying that object's own mutator prefix); (3) the seeded mGH estimate is a
function of (seed, graphs) only; (4) non-randomised entry points leave the global
RNG stream untouched; (5) equal-valued representations give equal results
wherever both are accepted."""
import copy
import hashlib
import json
import warnings

import numpy as np

from props import c19_api as api, dgmgen, imgcommon as ic, mgh_common as mg
from sim import zygote
from sim.sched import InvalidCase, Violation

ID = "C19"
TITLE = "Public API is pure, repeatable and representation-independent"
CASE_TIMEOUT_S = 180.0
NEEDS_ZYGOTE = True
PLAN = {
    "quick": {"runs": 1920, "chunk": 12, "shrink_s": 45.0},
    "thorough": {"budget_s": 900.0, "chunk": 12, "shrink_s": 90.0},
}
RULE = ("case = shared fixture pool (6..8 diagrams incl. integral, dyadic, with infinite deaths and an empty one; 3 graphs; "
        "kernel evaluation grid; 2 imager configurations) + 6..20 calls by K=2..4 interleaved clients drawn from the "
        "catalogue: bottleneck / wasserstein (with and without matching), heat, sliced_wasserstein, persistent_entropy "
        "(all flags), gromov_hausdorff (pair and collection, seeded), kernels and weights, exact / grid landscape "
        "construction, norms, arithmetic, death_vector, vectorize, snap_pl, lc_approx, average_approx, plot_diagrams, "
        "matching plots, 2-D landscape plots, imager plot_diagram / plot_image, deprecated PersImage, and stateful "
        "PersistenceImager / PersistenceLandscaper objects (fit, transform, fit_transform, setters); arguments in "
        "representations f64 / f32 / i64 / nested float list / nested int list; some calls are invalid and raise. "
        "Between calls the environment actor switches pyplot's current figure, changes the warnings filter "
        "(default/always/once/ignore), consumes or reseeds the global NumPy RNG. distinct_nontrivial = distinct cases "
        "with >= 2 clients, >= 8 executed calls covering >= 5 different entry points and >= 2 environment perturbations.")
ASSUMPTIONS = [
    "reference = the same call executed alone in a process forked from a zygote that imported persim and ran nothing",
    "float results compared rel 1e-12 (identical code path: expected bit-identical); representation independence rel 1e-9 "
    "and only between f64 / i64 / list / ilist forms (single precision input legitimately changes results)",
    "deprecated PersImage.transform performs an implicit fit by design: checked for argument purity and repeatability of "
    "a freshly constructed object only",
    "exception injection at arbitrary lines is not used as a deciding oracle (DESIGN.md C19)",
    "sampling, not proof",
]
REAL_COMPONENTS = ["every persim public entry point (working tree)", "matplotlib pyplot (Agg)", "numpy global RNG (real)",
                   "python warnings machinery", "real forked processes for the pristine reference"]
STUB_COMPONENTS = []
ENV = ("none", "none", "none", "pyplot-new-figure", "pyplot-switch", "warn-filter", "rng-consume", "rng-reseed")
FILTERS = ("default", "always", "once", "ignore")
REPS = ("f64", "f64", "list", "i64", "ilist", "f32", "u8", "view", "fortran", "f16", "i32", "u16")
# entry points that are plain functions of their arguments (no pyplot, no caller-owned estimator, no global RNG):
# what a thread pool may call concurrently on argument objects of its own
BURST_OK = ("bottleneck", "wasserstein", "heat", "sliced_wasserstein", "persistent_entropy", "kernel", "weight", "exact",
            "approx")


def reset_world():
    from sim import world
    world.reload_persim(None)


# ---------------------------------------------------------------- generation
def gen_fixtures(rng):
    dgms = []
    for i in range(rng.randint(6, 8)):
        style = ("ilattice", "lattice", "ilattice", "lattice", "float")[i % 5]
        pts, _, _, _ = dgmgen.gen_diagram(rng, 6, style=style, allow_inf=(i % 3 == 2), scale=rng.choice((1.0, 1.0, 4.0)),
                                          shift=0.0)
        if style != "float":
            pts = [[float(x) for x in p] for p in pts]
        else:                                   # dyadic floats: exactly representable in single precision too
            pts = [[round(p[0] * 64) / 64.0, max(round(p[1] * 64) / 64.0, round(p[0] * 64) / 64.0)]
                   if np.isfinite(p[1]) else [round(p[0] * 64) / 64.0, p[1]] for p in pts]
        dgms.append(pts)
    dgms[rng.randrange(len(dgms))] = []                      # one empty diagram
    graphs = [mg.gen_graph(rng, 6) for _ in range(3)]
    grid = {"x": [rng.choice((-2.0, -0.5, 0.0, 0.25, 1.0, 3.0)) for _ in range(6)],
            "y": [rng.choice((-1.0, 0.0, 0.5, 0.75, 2.0)) for _ in range(6)]}
    imagers = [ic.gen_config(rng, max_res=5) for _ in range(2)]
    return {"dgms": dgms, "graphs": graphs, "grid": grid, "imagers": imagers}


def gen_spec(rng, fx, k, counters):
    nd = len(fx["dgms"])
    kind = rng.choice(("bottleneck", "bottleneck", "wasserstein", "wasserstein", "heat", "sliced_wasserstein",
                       "persistent_entropy", "gromov_hausdorff", "kernel", "weight", "exact", "exact", "approx", "approx",
                       "plot_diagrams", "bottleneck_matching", "wasserstein_matching", "plot_landscape_simple",
                       "imager.plot_diagram", "imager.plot_image", "persimage", "persimage", "plot_landscape",
                       "obj", "obj", "obj", "obj"))
    rep = lambda: rng.choice(REPS)  # noqa: E731
    s = {"fn": kind}
    if kind in ("bottleneck", "wasserstein"):
        s.update(a=rng.randrange(nd), b=rng.randrange(nd), matching=rng.random() < 0.4, rep={"a": rep(), "b": rep()})
    elif kind == "heat":
        s.update(a=rng.randrange(nd), b=rng.randrange(nd), sigma=rng.choice((0.4, 1.0, 0.1)), rep={"a": rep(), "b": rep()})
    elif kind == "sliced_wasserstein":
        s.update(a=rng.randrange(nd), b=rng.randrange(nd), M=rng.choice((5, 10, 20)),
                 rep={"a": rng.choice(("f64", "f64", "i64", "f32", "list")), "b": rng.choice(("f64", "i64", "f32"))})
    elif kind == "persistent_entropy":
        n = rng.randint(1, 3)
        s.update(ds=[rng.randrange(nd) for _ in range(n)], as_list=n > 1 or rng.random() < 0.5,
                 rep={"ds": [rng.choice(("f64", "f64", "i64", "f32", "list")) for _ in range(n)]})
        if rng.random() < 0.4:
            s.update(keep_inf=True, val_inf=rng.choice((10.0, 100.0, None)))
        if rng.random() < 0.4:
            s["normalize"] = True
    elif kind == "gromov_hausdorff":
        coll = rng.random() < 0.3
        n = 3 if coll else 2
        s.update(gs=[rng.randrange(3) for _ in range(n)], fmts=[rng.choice(("csr", "csr0", "dense", "list")) for _ in range(n)],
                 seed=rng.randrange(1000), collection=coll)
    elif kind == "kernel":
        w = rng.choice(("gaussian", "gaussian", "uniform", "norm_cdf", "bvn_cdf", "sbvn_cdf"))
        s.update(which=w, mu=[rng.choice((0.0, 0.5, -1.0)), rng.choice((0.0, 0.25))])
        if w == "sbvn_cdf":
            s.update(sx=rng.choice((1.0, 0.5)), sy=rng.choice((1.0, 2.0)))
        if w in ("gaussian", "bvn_cdf"):
            v = rng.choice((1.0, 0.25))
            r = rng.choice((0.0, 0.5, 0.95, -0.6))
            s["sigma"] = [[v, r * v], [r * v, v]]
    elif kind == "weight":
        s.update(a=rng.randrange(nd), which=rng.choice(("persistence", "linear_ramp")), n=rng.choice((1.0, 2.0)),
                 rep={"a": rng.choice(("f64", "i64", "f32"))})
    elif kind in ("exact", "approx"):
        whats = ("build", "p_norm", "sup_norm", "add", "sub", "mul", "rmul", "div", "neg", "getitem", "death_vector")
        whats += ("vectorize", "by_depth") if kind == "exact" else ("snap", "lc", "avg", "values_to_pairs")
        s.update(ds=[rng.randrange(nd), rng.randrange(nd)], what=rng.choice(whats), hom_deg=rng.choice((0, 0, 1)),
                 compute=rng.random() < 0.8, p=rng.choice((1, 2, 3, -0.5)), c=rng.choice((2.0, -1.5)),
                 num_steps=rng.choice((21, 41)), depth=rng.choice((0, 0, 1)))
    elif kind == "plot_landscape":
        s.update(ds=[rng.randrange(nd)], approx=rng.random() < 0.5, steps=rng.choice((8, 12)), keep_open=rng.random() < 0.6)
        if rng.random() < 0.3:
            s["title"] = "T"
        if rng.random() < 0.3:
            s["depth_range"] = 1
    elif kind == "plot_diagrams":
        n = rng.randint(1, 3)
        o = {}
        if rng.random() < 0.4:
            o["lifetime"] = True
        if rng.random() < 0.2:
            o["legend"] = False
        if rng.random() < 0.3:
            o["colormap"] = rng.choice(("ggplot", "ggplot", "bmh", "default"))
        if rng.random() < 0.3:
            o["labels"] = ["first", "second", "third"][:n]
        if rng.random() < 0.2:
            o["title"] = "T"
        if n > 1 and rng.random() < 0.2:
            o["plot_only"] = [n - 1]
        s.update(ds=[rng.randrange(nd) for _ in range(n)], as_list=n > 1 or rng.random() < 0.5, opts=o,
                 rep={"ds": [rng.choice(("f64", "f64", "i64", "f32")) for _ in range(n)]})
        if rng.random() < 0.5:
            s["ax"] = "none"
    elif kind in ("bottleneck_matching", "wasserstein_matching"):
        s.update(a=rng.randrange(nd), b=rng.randrange(nd), rep={"a": rng.choice(("f64", "i64", "f32")), "b": rng.choice(("f64", "i64"))})
    elif kind == "plot_landscape_simple":
        s.update(ds=[rng.randrange(nd)], approx=rng.random() < 0.5)
    elif kind in ("imager.plot_diagram", "imager.plot_image"):
        s.update(a=rng.randrange(nd), cfg=rng.randrange(2), skew=rng.random() < 0.7, rep={"a": rng.choice(("f64", "i64", "f32"))})
    elif kind == "persimage":
        n = rng.randint(1, 2)
        s.update(ds=[rng.randrange(nd) for _ in range(n)], as_list=n > 1, spread=rng.choice((None, 0.5)),
                 rep={"ds": [rng.choice(("f64", "i64", "f32", "list")) for _ in range(n)]},
                 what=rng.choice(("transform", "transform", "to_landscape", "to_landscape", "weighting", "kernel", "show")))
        if s["what"] == "weighting":
            s["with_landscape"] = rng.random() < 0.7
        if s["what"] == "kernel":
            s["kspread"] = rng.choice((1.0, 0.5))
    else:  # stateful object of this client
        okind = rng.choice(("imager", "landscaper"))
        slot = rng.randrange(2)
        oid = "c%d-%s-%d" % (k, okind, slot)
        s.update(kind=okind, obj_id=oid)
        if okind == "imager" and rng.random() < 0.35:
            # an imager built with the library's default parameters (one per client and slot)
            s.update(obj_id="c%d-imager-default-%d" % (k, slot), ctor="default")
            m = rng.choice(("transform", "transform", "fit_transform", "kparams[]=", "kparams[]=", "wparams[]="))
        elif okind == "imager":
            s["ctor"] = slot % 2
            m = rng.choice(("fit", "transform", "transform", "transform", "fit_transform", "pixel_size=", "birth_range=", "pers_range=",
                            "shift_ranges", "shift_ranges"))
        else:
            # constructor arguments are a function of the object's identity (one object, one constructor call)
            a = {"num_steps": 9 if slot == 0 else 17, "hom_deg": k % 2, "flatten": (k + slot) % 2 == 1}
            if slot == 1:
                a["start"] = -1.0
            s["ctor"] = a
            m = rng.choice(("fit", "transform", "fit_transform"))
        call = {"m": m}
        if m == "pixel_size=":
            call["val"] = rng.choice((0.1, 0.2, 0.25, 0.5))
        elif m == "birth_range=":
            call["val"] = rng.choice(([0.0, 1.0], [-1.0, 2.0], [0.0, 4.0]))
        elif m == "pers_range=":
            call["val"] = rng.choice(([0.0, 1.0], [0.0, 2.5], [0.5, 3.0]))
        elif m == "shift_ranges":
            call["val"] = rng.choice((0.37, -0.5, 1.0, 2.25))
        elif m == "kparams[]=":
            call["val"] = rng.choice((0.05, 0.5, [[0.25, 0.0], [0.0, 0.25]], [[1.0, 0.5], [0.5, 1.0]]))
        elif m == "wparams[]=":
            call["val"] = rng.choice((2.0, 0.5, 3.0))
        else:
            n = rng.randint(1, 3)
            call.update(ds=[rng.randrange(nd) for _ in range(n)], skew=rng.random() < 0.8,
                        reps=[rng.choice(("f64", "f64", "i64", "f32", "list")) for _ in range(n)])
            if okind == "imager" and m == "transform" and rng.random() < 0.5:
                call["n_jobs"] = rng.choice((2, 2, 3))
        s["call"] = call
    return s


def gen_case(rng, tier):
    fx = gen_fixtures(rng)
    K = rng.randint(2, 4)
    ops = []
    specs = []
    for _ in range(rng.randint(6, 20 if tier == "quick" else 45)):
        k = rng.randrange(K)
        if specs and rng.random() < 0.2:
            spec = copy.deepcopy(rng.choice(specs))          # the same call again, later, possibly by another client
            if spec["fn"] == "obj":
                spec = gen_spec(rng, fx, k, None)
        else:
            spec = gen_spec(rng, fx, k, None)
        specs.append(spec)
        op = {"client": k, "env": rng.choice(ENV), "spec": spec}
        if rng.random() < 0.15:
            # this client's call runs while 1-2 other threads of the process are inside calls of their own
            others = []
            for _ in range(rng.randint(1, 2)):
                for _try in range(20):
                    o_ = gen_spec(rng, fx, k, None)
                    if o_["fn"] in BURST_OK:
                        others.append(o_)
                        break
            if spec["fn"] in BURST_OK and others:
                # inside a burst the matcher's set order is scheduler-owned (the interleaving must not depend on the
                # harness's hash seed); a *matching* legitimately depends on that order, so bursts ask for values only
                for b_ in others + [spec]:
                    if b_["fn"] == "bottleneck":
                        b_["matching"] = False
                op["burst"] = others
                op["p_switch"] = rng.choice((2, 4, 8))
        if op["env"] == "warn-filter":
            op["filter"] = rng.choice(FILTERS)
        if op["env"] in ("rng-consume", "rng-reseed"):
            op["n"] = rng.randrange(1, 50)
        if spec["fn"] in ("bottleneck", "wasserstein", "heat", "sliced_wasserstein") and rng.random() < 0.2:
            # d(X, X): the same object passed twice; the alternative run passes an equal-valued copy instead
            spec["b"] = spec["a"]
            spec["rep"]["b"] = spec["rep"]["a"]
            spec["same_object"] = True
            op["alt_rep"] = copy.deepcopy(spec["rep"])
        elif rng.random() < 0.35 and spec.get("rep"):
            alt = copy.deepcopy(spec["rep"])
            for key in alt:
                if isinstance(alt[key], list):
                    alt[key] = [rng.choice(("f64", "i64", "list", "ilist", "u8", "view", "fortran", "i32", "u16")) for _ in alt[key]]
                else:
                    alt[key] = rng.choice(("f64", "i64", "list", "ilist", "u8", "view", "fortran", "i32", "u16"))
            op["alt_rep"] = alt
        ops.append(op)
    return {"inputs": {"fixtures": fx, "clients": K}, "ops": ops,
            "config": {"interleave": rng.choice(("scheduler", "scheduler", "as-listed")),
                       "parallel_mode": rng.choice(("proc", "thread-coop", "thread-preempt", "thread-preempt"))}}


# ---------------------------------------------------------------- reference (pristine fork)
_ref_cache = {}


def reference_of(spec, fx, fx_key):
    key = fx_key + json.dumps(spec, sort_keys=True)
    if key in _ref_cache:
        return _ref_cache[key], True
    ch = zygote.Child()
    try:
        ch.send_call(api.reference, (spec, fx), {})
        msg = ch.recv()
    finally:
        ch.close()
    if msg[0] != "ok":
        if msg[1] == "InvalidCase":
            raise InvalidCase(msg[2][:200])
        raise RuntimeError("reference process failed: %s %s" % (msg[1], msg[2][:500]))
    if len(_ref_cache) > 5000:
        _ref_cache.clear()
    _ref_cache[key] = msg[1]
    return msg[1], False


def check_fixtures(fx):
    if not (isinstance(fx.get("dgms"), list) and fx["dgms"]):
        raise InvalidCase("dgms")
    for d in fx["dgms"]:
        dgmgen.check_diagram_json(d)
    for g in fx.get("graphs") or []:
        mg.check_graph_json(g)
        from models import ref_mgh
        if len(ref_mgh.components(g["n"], g["edges"])) != 1:
            raise InvalidCase("connected graphs")
    if len(fx.get("graphs") or []) != 3 or len(fx.get("imagers") or []) != 2:
        raise InvalidCase("fixture counts")
    for c in fx["imagers"]:
        ic.check_config(c)
    g = fx.get("grid") or {}
    if not (isinstance(g.get("x"), list) and isinstance(g.get("y"), list) and len(g["x"]) == len(g["y"]) and g["x"]):
        raise InvalidCase("grid")


def site_of(spec):
    fn = spec["fn"]
    if fn in ("exact", "approx"):
        return "%s.%s" % (fn, spec.get("what"))
    if fn == "kernel":
        return "kernel.%s" % spec.get("which")
    if fn == "weight":
        return "weight.%s" % spec.get("which")
    if fn == "obj":
        return "%s.%s" % (spec.get("kind"), (spec.get("call") or {}).get("m"))
    if fn == "persimage":
        return "persimage.%s" % spec.get("what", "transform")
    if fn == "plot_diagrams" and spec.get("ax") == "none":
        return "plot_diagrams(ax=None)"
    return fn


def rep_tag(spec):
    r = spec.get("rep") or {}
    vals = []
    for v in r.values():
        vals += v if isinstance(v, list) else [v]
    if spec.get("fn") == "obj":
        vals += (spec.get("call") or {}).get("reps") or []
    vals = sorted(set(vals))
    return "+".join(vals) if vals else "-"


def run_case(case, sched):
    import matplotlib
    matplotlib.use("Agg", force=False)
    import matplotlib.pyplot as plt
    fx = case["inputs"]["fixtures"]
    check_fixtures(fx)
    fx_key = hashlib.sha1(json.dumps(fx, sort_keys=True).encode()).hexdigest()
    K = case["inputs"].get("clients", 2)
    saved_filters = list(warnings.filters)
    saved_show = warnings.showwarning
    warnings.showwarning = lambda *a, **k: None          # emitted warnings are not printed by the harness
    plt.close("all")
    matplotlib.rcdefaults()
    np.random.seed(12345)
    from sim import simparallel
    pmode = case["config"].get("parallel_mode", "thread-coop")
    if pmode not in ("proc", "thread-coop", "thread-preempt"):
        raise InvalidCase("parallel mode")
    world = simparallel.World(sched, pmode, 8)
    simparallel.install(world)
    objects = {}
    prefix = {}
    executed = 0
    fns = set()
    env_count = 0
    stats = {"ok": 0, "raised": 0, "skipped": 0, "alt_rep_compared": 0, "reference_forks": 0, "reference_cache_hits": 0}
    stray = []
    burst_stats = {}
    from sim import simset as _simset
    _simset.uninstall()
    try:
        from sim.sched import interleave
        for opi, op in interleave(sched, case["ops"], "client", case["config"].get("interleave", "as-listed")):
            spec = op.get("spec")
            if not isinstance(spec, dict) or "fn" not in spec:
                raise InvalidCase("spec")
            # ---- environment actor
            env = op.get("env", "none")
            after_axes = None
            if env == "pyplot-new-figure":
                stray.append(plt.figure())
                env_count += 1
            elif env == "pyplot-switch":
                env_count += 1

                def after_axes(p, _stray=stray):
                    # make some *other* figure current between creating the axes and drawing
                    _stray.append(p.figure())
            elif env == "warn-filter":
                f = op.get("filter", "default")
                if f not in FILTERS:
                    raise InvalidCase("filter")
                warnings.simplefilter(f)
                env_count += 1
            elif env == "rng-consume":
                np.random.random(int(op.get("n", 1)))
                env_count += 1
            elif env == "rng-reseed":
                np.random.seed(int(op.get("n", 1)))
                env_count += 1
            elif env != "none":
                raise InvalidCase("env")
            sched.count("env:" + env)
            site = site_of(spec)

            def execute(sp, label):
                sp_run = dict(sp)
                if after_axes is not None:
                    sp_run["_env_after_axes"] = after_axes
                try:
                    thunk, args, _ = api.build(sp_run, fx, objects)
                except api.Skip as e:
                    return ("skip", str(e))
                d0 = api.digest_args(args)
                rng0 = hashlib.sha1(np.random.get_state()[1].tobytes() + bytes([np.random.get_state()[2] % 256])).hexdigest()
                import random as _pyrandom
                pr0 = _pyrandom.getstate()
                out = api.run_thunk(thunk)
                if sp["fn"] != "gromov_hausdorff" and _pyrandom.getstate() != pr0:
                    raise Violation("global-rng-untouched", site, "python-random",
                                    "the state of Python's global `random` generator changed across the call", opi)
                d1 = api.digest_args(args)
                rng1 = hashlib.sha1(np.random.get_state()[1].tobytes() + bytes([np.random.get_state()[2] % 256])).hexdigest()
                if d0 != d1:
                    raise Violation("arguments-untouched", site, "%s/%s" % (rep_tag(sp), out[0]),
                                    "%s modified an argument passed to it (%s; the call %s)" % (
                                        site, label, "returned" if out[0] == "ok" else out[0] + " " + str(out[1])), opi)
                if sp["fn"] != "gromov_hausdorff" and rng0 != rng1:
                    raise Violation("global-rng-untouched", site, "consumed",
                                    "%s is not a randomised routine but the global NumPy RNG state changed across the call" % site, opi)
                return out

            if op.get("burst"):
                burst = [spec] + list(op["burst"])
                if len(burst) > 4 or any(not isinstance(b_, dict) or b_.get("fn") not in BURST_OK for b_ in burst):
                    raise InvalidCase("burst")
                if any(b_["fn"] == "bottleneck" and b_.get("matching") for b_ in burst):
                    raise InvalidCase("bursts compare values, not order-dependent matchings")
                from sim import callers
                built = []
                for b_ in burst:
                    try:
                        th_, args_, _ = api.build(dict(b_), fx, None)
                    except api.Skip:
                        continue
                    built.append((b_, th_, args_, api.digest_args(args_)))
                rng0 = np.random.get_state()[1].tobytes()
                import contextlib
                import io
                from sim import simset
                try:
                    with contextlib.redirect_stdout(io.StringIO()), simset.order_scope(sched, "uniform"):
                        outs = callers.run_concurrent(sched, [b_[1] for b_ in built], int(op.get("p_switch", 4)), burst_stats)
                finally:
                    # outside bursts C19 runs the matcher on real sets, exactly like the pristine reference process
                    simset.uninstall()
                if np.random.get_state()[1].tobytes() != rng0:
                    raise Violation("global-rng-untouched", site + "(concurrent)", "consumed",
                                    "concurrent non-randomised calls changed the global NumPy RNG state", opi)
                for (b_, th_, args_, d0_), (st_, val_) in zip(built, outs):
                    bsite = site_of(b_) + "(concurrent)"
                    if st_ == "raised" and isinstance(val_, (api.Skip,)):
                        continue
                    if api.digest_args(args_) != d0_:
                        raise Violation("arguments-untouched", bsite, rep_tag(b_) + "/" + st_,
                                        "%s modified an argument passed to it (one of %d concurrent callers)" % (bsite, len(built)), opi)
                    got = ("ok", api.canon(val_)) if st_ == "ok" else ("raised", type(val_).__name__)
                    ref, hit = reference_of({k_: v for k_, v in b_.items()}, fx, fx_key)
                    stats["reference_cache_hits" if hit else "reference_forks"] += 1
                    if ref[0] == "skip":
                        continue
                    executed += 1
                    fns.add(site_of(b_))
                    if ref[0] != got[0] or (got[0] == "raised" and ref[1] != got[1]):
                        raise Violation("same-as-alone-in-fresh-process", bsite, "status/" + rep_tag(b_),
                                        "as one of %d concurrent callers the call %s, alone in a fresh process it %s" % (
                                            len(built), "returned" if got[0] == "ok" else "raised " + str(got[1]),
                                            "returned" if ref[0] == "ok" else "raised " + str(ref[1])), opi)
                    if got[0] == "ok":
                        where = api.same(got[1], ref[1])
                        if where:
                            raise Violation("same-as-alone-in-fresh-process", bsite, "value/" + rep_tag(b_),
                                            "result of one of %d concurrent callers (each with arguments of its own) differs "
                                            "from the same call executed alone in a fresh process at %s" % (len(built), where), opi)
                sched.note("op%d burst of %d ok" % (opi, len(built)))
                continue
            out = execute(spec, "as issued")
            if out[0] == "skip":
                stats["skipped"] += 1
                continue
            executed += 1
            fns.add(site)
            stats[out[0]] += 1
            # ---- reference: the same call alone in a fresh process
            ref_spec = {k_: v for k_, v in spec.items() if k_ != "obj_id"}
            if spec["fn"] == "obj":
                ref_spec["prefix"] = list(prefix.get(spec["obj_id"], []))
            if spec["fn"] != "persimage" or True:
                ref, hit = reference_of(ref_spec, fx, fx_key)
                stats["reference_cache_hits" if hit else "reference_forks"] += 1
                if ref[0] == "skip":
                    pass
                elif ref[0] != out[0] or (out[0] == "raised" and ref[1] != out[1]):
                    raise Violation("same-as-alone-in-fresh-process", site, "status/" + rep_tag(spec),
                                    "in this history the call %s, alone in a fresh process it %s" % (
                                        "returned" if out[0] == "ok" else "raised " + str(out[1]),
                                        "returned" if ref[0] == "ok" else "raised " + str(ref[1])), opi)
                elif out[0] == "ok":
                    where = api.same(out[1], ref[1])
                    if where:
                        raise Violation("same-as-alone-in-fresh-process", site,
                                        ("seeded-rng" if spec["fn"] == "gromov_hausdorff" else "value") + "/" + rep_tag(spec),
                                        "result differs from the same call executed alone in a fresh process at %s "
                                        "(history position %d, env %s)" % (where, opi, env), opi)
            if spec["fn"] == "obj" and spec["call"]["m"] in ("fit", "fit_transform", "pixel_size=", "birth_range=", "pers_range=", "shift_ranges", "kparams[]=", "wparams[]="):
                prefix.setdefault(spec["obj_id"], []).append(copy.deepcopy(spec["call"]))
            # ---- representation independence
            alt = op.get("alt_rep")
            if spec["fn"] == "persistent_entropy" and alt:
                # documented input: ndarray or *list of* ndarrays; a nested list is taken for a list of
                # diagrams and only slips through by accident -> representation independence among arrays only
                alt = {k_: [x if x in ("f64", "i64", "u8", "view", "fortran", "i32", "u16") else "f64" for x in v] for k_, v in alt.items()}
                if any(x == "list" for x in (spec.get("rep") or {}).get("ds", [])):
                    alt = None
            if alt and out[0] == "ok" and spec["fn"] != "obj":
                sp2 = copy.deepcopy(spec)
                sp2["rep"] = alt
                sp2.pop("same_object", None)          # two objects of equal value
                base_reps = set(rep_tag(spec).split("+"))
                if not ({"f32", "f16"} & base_reps):          # narrow floats are different values
                    out2 = execute(sp2, "alternative representation")
                    if out2[0] == "ok":
                        stats["alt_rep_compared"] += 1
                        # sliced_wasserstein projects onto single-precision directions, so NumPy's promotion rules
                        # make its working precision depend on the input dtype (uint8 x float32 -> float32):
                        # its representation clause is held to single precision
                        where = api.same(out[1], out2[1], rel=1e-9)
                        if where and spec["fn"] == "sliced_wasserstein":
                            # single-precision routine: absolute error ~1e-7 * coordinate scale, whatever the result's size
                            sc_ = max([abs(x) for i_ in (spec["a"], spec["b"]) for p_ in fx["dgms"][i_] for x in p_
                                       if x == x and abs(x) != float("inf")] + [1.0])
                            a_, b_ = out[1], out2[1]
                            if isinstance(a_, float) and isinstance(b_, float) and abs(a_ - b_) <= 1e-5 * sc_:
                                where = None
                        if where:
                            raise Violation("representation-independent", site, rep_tag(spec) + "~" + rep_tag(sp2),
                                            "equal-valued inputs given as %s and as %s give different results (at %s)"
                                            % (spec.get("rep"), alt, where), opi)
            sched.note("op%d %s %s" % (opi, site, out[0]))
    finally:
        simparallel.uninstall()
        warnings.filters[:] = saved_filters
        warnings.showwarning = saved_show
        plt.close("all")
    return {
        "evals": executed, "ops": len(case["ops"]),
        "key": hashlib.sha1(json.dumps([fx, case["ops"]], sort_keys=True, default=str).encode()).hexdigest()[:16],
        "nontrivial": K >= 2 and executed >= 8 and len(fns) >= 5 and env_count >= 2,
        "probes": dict(stats, distinct_entry_points_in_case=len(fns), **{"entry:" + f: 1 for f in fns}),
        "faults": dict({"env_perturbations": env_count}, **dict({k_: v for k_, v in world.stats.items() if v},
                                                                **{"callers_" + k_: v for k_, v in burst_stats.items() if v})),
    }


def cleanup():
    try:
        from sim import simparallel
        simparallel.uninstall()
        import matplotlib.pyplot as plt
        plt.close("all")
    except Exception:
        pass


def shrink_candidates(case):
    from sim import shrink as shr
    ops = case["ops"]
    for idx in shr.list_deletions(ops, min_len=1):
        c = copy.deepcopy(case)
        for i in reversed(idx):
            del c["ops"][i]
        yield c
    for i, o in enumerate(ops):
        if o.get("env") != "none":
            c = copy.deepcopy(case)
            c["ops"][i]["env"] = "none"
            yield c
        if o.get("alt_rep"):
            c = copy.deepcopy(case)
            del c["ops"][i]["alt_rep"]
            yield c
        if o.get("burst"):
            c = copy.deepcopy(case)
            del c["ops"][i]["burst"]
            yield c
            for j in range(len(o["burst"])):
                if len(o["burst"]) > 1:
                    c = copy.deepcopy(case)
                    del c["ops"][i]["burst"][j]
                    yield c
        sp = o["spec"]
        if sp.get("rep"):
            for key, v in sp["rep"].items():
                if isinstance(v, list):
                    for j, rv in enumerate(v):
                        if rv != "f64":
                            c = copy.deepcopy(case)
                            c["ops"][i]["spec"]["rep"][key][j] = "f64"
                            yield c
                elif v != "f64":
                    c = copy.deepcopy(case)
                    c["ops"][i]["spec"]["rep"][key] = "f64"
                    yield c
        if sp.get("opts"):
            for key in list(sp["opts"]):
                c = copy.deepcopy(case)
                del c["ops"][i]["spec"]["opts"][key]
                yield c
        for key in ("ds", "gs"):
            if isinstance(sp.get(key), list) and len(sp[key]) > 1 and sp["fn"] not in ("exact", "approx", "gromov_hausdorff"):
                for j in range(len(sp[key])):
                    c = copy.deepcopy(case)
                    del c["ops"][i]["spec"][key][j]
                    if isinstance((c["ops"][i]["spec"].get("rep") or {}).get(key), list):
                        del c["ops"][i]["spec"]["rep"][key][j]
                    yield c
    # shrink fixture diagrams (indices stay valid: only points are removed)
    for di, d in enumerate(case["inputs"]["fixtures"]["dgms"]):
        for idx in shr.list_deletions(d, min_len=0):
            c = copy.deepcopy(case)
            for q in reversed(idx):
                del c["inputs"]["fixtures"]["dgms"][di][q]
            yield c
    for di, d in enumerate(case["inputs"]["fixtures"]["dgms"]):
        for pi, p in enumerate(d):
            for k in (0, 1):
                for nv in shr.simpler_numbers(p[k]):
                    c = copy.deepcopy(case)
                    c["inputs"]["fixtures"]["dgms"][di][pi][k] = nv
                    yield c
