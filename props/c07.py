"""C07 - metric and invariance laws of bottleneck / Wasserstein at any size.

Every individual distance evaluation inside a law runs under its *own*
scheduler-drawn set order, so d(X,Y) and d(Y,X), or the three sides of a
triangle, are computed under different orders - which is what "for every hash
seed" adds to a metamorphic relation.  A subset repeats under real hash seeds
(each side of a law in a different interpreter)."""
import copy
import hashlib
import json
import math

import numpy as np

from props import dgmgen, match_common as mc
from sim import simset
from sim.sched import InvalidCase, Violation

ID = "C07"
NEEDS_ZYGOTE = True          # only used if a change makes the distance functions run joblib workers in processes
TITLE = "Bottleneck and Wasserstein obey the metric and invariance laws at any size"
CASE_TIMEOUT_S = 300.0
PLAN = {
    "quick": {"runs": 3200, "chunk": 20, "shrink_s": 40.0},
    "thorough": {"budget_s": 600.0, "chunk": 10, "shrink_s": 90.0},
}
LAWS = ("reorder-zero", "reorder-free", "symmetry", "nonneg", "triangle", "add-diagonal", "translate",
        "rescale", "vs-empty", "bott<=wass", "warnings-as-errors")
RULE = ("case = triple of finite generated diagrams X,Y,Z (0..60 points quick, up to 300 thorough) + a permutation, "
        "diagonal points to add, a diagonal shift and a scale factor; the laws " + ", ".join(LAWS) + " are checked for "
        "bottleneck (each evaluation under its own scheduler-owned set order) and for Wasserstein (fault-free "
        "control; deterministic solver). Real-hash-seed phase: the sides of each law are evaluated in different "
        "PYTHONHASHSEED interpreters. distinct_nontrivial = distinct (X,Y,Z) triples with >= 2 non-empty diagrams and "
        ">= 4 points in total on which >= 5 laws were evaluated.")
ASSUMPTIONS = [
    "any permutation of a str-keyed set is a legal CPython iteration order",
    "bottleneck clauses are exact or rel 1e-12 of the coordinate scale (values are entries of the cost matrix); "
    "Wasserstein clauses use atol 2e-7*(M+N)*max|coordinate| (rel 1e-12 for the empty-diagram law) (scikit-learn expanded quadratic form, DESIGN.md 3); "
    "generated shifts stay <= 10x the diagram scale so that this stays far below the distances compared",
    "sampling, not proof",
]
REAL_COMPONENTS = ["persim.bottleneck, persim.wasserstein (working tree)", "hopcroftkarp (real code)", "scipy, sklearn",
                   "real CPython set order in the PYTHONHASHSEED sweep"]
STUB_COMPONENTS = ["builtin set inside hopcroftkarp -> SimSet (simulated phase only)"]


reset_world = mc.reset_world


def gen_case(rng, tier):
    r = rng.random()
    if r < 0.5:
        max_n = 6
    elif r < 0.85:
        max_n = 20
    else:
        max_n = 60 if tier == "quick" else rng.choice((60, 120, 300))
    r_chain = rng.random()
    if r_chain < (0.0015 if tier == "quick" else 0.004) or r_chain > 0.985:
        # long chains: every point of X is best matched to a shifted copy, so augmenting paths run through the
        # whole diagram (the matcher's search depth grows with the size); short tied staircases of the same kind are
        # cheap and frequent, and some run deep in the caller's stack or under a lowered recursion limit
        n = rng.choice((300, 500) if tier == "quick" else (300, 500, 640, 800))
        gap, pers, off = rng.choice((1.0, 0.5)), rng.choice((100.0, 37.5)), rng.choice((0.6, 0.25))
        if r_chain > 0.985:
            n, gap, off = rng.choice((40, 80, 120)), 1.0, rng.choice((0.5, 0.5, 0.25))
        X = [[i * gap, i * gap + pers] for i in range(n)]
        Y = [[i * gap + off, i * gap + pers + off] for i in range(n)]
        Z = [[i * gap - off, i * gap + pers] for i in range(n // 2)]
        perm = list(range(n))
        rng.shuffle(perm)
        return {"inputs": {"X": X, "Y": Y, "Z": Z, "perm": perm, "diag": [[1.0, 1.0]], "shift": 2.0, "factor": 2.0},
                "config": {"set_order": "sim", "mode": rng.choice(("uniform", "insertion")),
                           "laws": ["symmetry", "bott<=wass"], "chain": True, "stack": rng.choice(mc.STACKS)},
                "ops": []}
    X, style, scale, shift = dgmgen.gen_diagram(rng, max_n, allow_inf=False)
    if rng.random() < 0.6:
        Y = dgmgen.perturbed_copy(rng, X, scale, max_n, style)
    else:
        Y, _, _, _ = dgmgen.gen_diagram(rng, max_n, style=style, scale=scale, shift=shift, allow_inf=False)
    if rng.random() < 0.6:
        Z = dgmgen.perturbed_copy(rng, rng.choice((X, Y)), scale, max_n, style)
    else:
        Z, _, _, _ = dgmgen.gen_diagram(rng, max_n, style=style, scale=scale, shift=shift, allow_inf=False)
    # essential classes: rows with infinite death anywhere in the diagram (both distances drop them with a
    # warning, so every law must hold on diagrams that contain them)
    if rng.random() < 0.25:
        for D_ in (X, Y, Z):
            if rng.random() < 0.6:
                for _ in range(rng.randint(1, 2)):
                    b_ = rng.choice(D_)[0] if D_ else 0.0
                    D_.insert(rng.randrange(len(D_) + 1), [b_, float("inf")])
    perm = list(range(len(X)))
    rng.shuffle(perm)
    ndiag = rng.randint(1, 3)
    diag = []
    for _ in range(ndiag):
        t = (rng.choice(X + Y)[rng.randrange(2)] if X + Y and rng.random() < 0.6 else rng.randint(-2, 6) * 0.5 * scale)
        if not math.isfinite(t):
            t = rng.randint(-2, 6) * 0.5 * scale
        diag.append([t, t])
    reps = {}
    for nm, D_ in (("X", X), ("Y", Y), ("Z", Z)):
        if rng.random() < 0.35:
            reps[nm] = dgmgen.representation(rng, D_)
    if rng.random() < 0.06 and max_n <= 20:
        # unsigned 8-bit data on all three sides
        X, Y = dgmgen.gen_u8_pair(rng, max_n)
        Z, _ = dgmgen.gen_u8_pair(rng, max_n)
        perm = list(range(len(X)))
        rng.shuffle(perm)
        reps = {"X": "u8", "Y": "u8", "Z": "u8"}
        diag = [[float(rng.randint(0, 255))] * 2]
    shared = None
    if X and Y and rng.random() < 0.15 and "X" not in reps and "Y" not in reps:
        # X and Y are views into one buffer of the caller (columns of a wide table, interleaved rows, blocks,
        # overlapping windows): equal lengths where the layout needs them
        shared = rng.choice(dgmgen.SHARED)
        if shared in ("cols4", "interleave", "window"):
            n_ = min(len(X), len(Y))
            X, Y = X[:n_], Y[:n_]
            if shared == "window" and n_ >= 2:
                k_ = rng.randint(1, n_ - 1)
                Y = X[k_:] + Y[:k_]
            perm = list(range(len(X)))
            rng.shuffle(perm)
    narrow_first = rng.choice(("f16", "f32")) if rng.random() < 0.15 else None
    return {
        "inputs": {"X": X, "Y": Y, "Z": Z, "perm": perm, "diag": diag, "reps": reps, "shared_xy": shared,
                   "narrow_first": narrow_first,
                   "shift": rng.choice((0.5, -1.0, 2.0, 0.3, -0.7, 3.25, 10.0, 100.0, 1024.0)) * scale,
                   "factor": rng.choice((2.0, 0.5, 4.0, 3.0, 0.1, 7.5, 1e3))},
        "config": {"set_order": "sim", "mode": rng.choice(("uniform", "uniform", "sparse", "reverse")),
                   "laws": list(LAWS), "stack": rng.choice(mc.STACKS) if rng.random() < 0.3 else None},
        "ops": [],
    }


class Ev(object):
    """Evaluates distances, each call under a fresh order (sim) or hash seed (real)."""

    def __init__(self, sched, cfg, reps=None):
        self.sched = sched
        self.cfg = cfg
        self.reps = reps or {}
        self.n = 0
        self.hs = cfg.get("hashseeds") or []
        self.arrays = {}

    def arr(self, P):
        """The caller's array for this diagram: built once per case and *reused* for every later call, the
        way a user filling a distance matrix reuses their arrays (so a call that modifies its argument
        shows up in the laws evaluated afterwards)."""
        key = id(P)
        hit = self.arrays.get(key)
        if hit is None or hit[0] is not P:
            rep = self.reps.get(id(P), "f64")
            try:
                a_ = dgmgen.materialize(P, rep)
            except InvalidCase:
                a_ = dgmgen.materialize(P)          # shrunk values no longer fit the form: plain float64
            if rep in ("f32", "f16"):
                a_ = dgmgen.materialize(P)          # narrow floats would change the values the laws speak about
            hit = self.arrays[key] = (P, a_)
        return hit[1]

    def bott(self, P, Q):
        self.n += 1
        if self.cfg.get("set_order", "sim") == "sim":
            mode = self.cfg.get("mode", "uniform")
            if mode not in ("uniform", "sparse", "reverse", "insertion"):
                raise InvalidCase("bad mode")
            v, _, _ = mc.call_bottleneck(self.sched, self.arr(P), self.arr(Q), False, mode, "ignore",
                                         stack=self.cfg.get("stack"))
            return v
        if not self.hs:
            raise InvalidCase("no hash seeds")
        h = int(self.hs[self.n % len(self.hs)])
        self.sched.count("real_hashseed_evals")
        return mc.call_bottleneck_real(h, P, Q, "f64", "f64")[0]

    def wass(self, P, Q):
        self.n += 1
        return mc.call_wasserstein(self.arr(P), self.arr(Q), False, "ignore")[0]


def _scale(*ds):
    c = [abs(x) for d in ds for p in d for x in p if math.isfinite(x)]
    return max(c) if c else 1.0


def run_case(case, sched):
    with mc.parallel_world(sched, case):
        return _run_case(case, sched)


def _run_case(case, sched):
    inp, cfg = case["inputs"], case["config"]
    X, Y, Z = inp["X"], inp["Y"], inp["Z"]
    for d in (X, Y, Z, inp["diag"]):
        dgmgen.check_diagram_json(d)
    if any(not math.isfinite(p[1]) for p in inp["diag"]):
        raise InvalidCase("diag points are finite")
    if any(p[0] != p[1] for p in inp["diag"]):
        raise InvalidCase("diag points must be diagonal")
    perm = inp["perm"]
    if sorted(perm) != list(range(len(X))):
        perm = list(range(len(X)))[::-1]           # shrunk X: fall back to reversal
    shift, factor = float(inp["shift"]), float(inp["factor"])
    if not (math.isfinite(shift) and math.isfinite(factor) and factor > 0):
        raise InvalidCase("bad shift/factor")
    laws = cfg.get("laws") or []
    rp = inp.get("reps") or {}
    ev = Ev(sched, cfg, {id(D_): rp[nm] for nm, D_ in (("X", X), ("Y", Y), ("Z", Z)) if nm in rp})
    simset.CTX.iters = simset.CTX.permuted = 0
    # another caller in the same process used single / half precision diagrams first (what ripser hands out)
    nf = inp.get("narrow_first")
    if nf is not None:
        if nf not in ("f16", "f32"):
            raise InvalidCase("narrow_first")
        dt_ = np.float16 if nf == "f16" else np.float32
        P_ = np.array([[0.0, 1.0], [0.5, 2.0]], dtype=dt_)
        Q_ = np.array([[0.25, 1.5]], dtype=dt_)
        mc.call_wasserstein(P_, Q_, False, "ignore")
        mc.call_bottleneck(sched, P_, Q_, False, "insertion", "ignore")
    sh = inp.get("shared_xy")
    shared_used = 0
    if sh is not None:
        if sh not in dgmgen.SHARED:
            raise InvalidCase("shared_xy")
        if all(math.isfinite(p[1]) for p in X + Y) or True:
            vw = dgmgen.shared_views(X, Y, sh)
            if vw is not None and id(X) not in ev.reps and id(Y) not in ev.reps and X is not Y:
                ev.arrays[id(X)] = (X, vw[0])
                ev.arrays[id(Y)] = (Y, vw[1])
                shared_used = 1
    nX, nY, nZ = len(X), len(Y), len(Z)
    sc = _scale(X, Y, Z)
    bt = 1e-12 * sc + 1e-300                               # bottleneck slack (floor: subnormal inputs)

    def wt(*ds):                                           # Wasserstein slack
        return 2e-7 * max(2, sum(len(d) for d in ds)) * _scale(*ds) + 1e-300      # floor: subnormal inputs

    def fail(law, kind, discr, msg):
        raise Violation(law, kind, discr, msg)

    done = 0
    for law in laws:
        if law not in LAWS:
            raise InvalidCase("unknown law")
        done += 1
        if law == "reorder-zero":
            XP = [X[i] for i in perm]
            v = ev.bott(X, XP)
            if v != 0.0:
                fail(law, "bottleneck", "nonzero", "d(X, reordered X) = %r" % v)
            w = ev.wass(X, XP)
            if not abs(w) <= wt(X, X):
                fail(law, "wasserstein", "nonzero", "d(X, reordered X) = %r (tolerance %r)" % (w, wt(X, X)))
        elif law == "reorder-free":
            XP = [X[i] for i in perm]
            a, b = ev.bott(X, Y), ev.bott(XP, Y)
            if a != b:
                fail(law, "bottleneck", "differs", "d(X,Y)=%r but d(reordered X,Y)=%r" % (a, b))
            a, b = ev.wass(X, Y), ev.wass(XP, Y)
            if not abs(a - b) <= wt(X, Y):
                fail(law, "wasserstein", "differs", "d(X,Y)=%r but d(reordered X,Y)=%r" % (a, b))
        elif law == "symmetry":
            a, b = ev.bott(X, Y), ev.bott(Y, X)
            if a != b:
                fail(law, "bottleneck", "asymmetric", "d(X,Y)=%r, d(Y,X)=%r" % (a, b))
            a, b = ev.wass(X, Y), ev.wass(Y, X)
            if not abs(a - b) <= wt(X, Y):
                fail(law, "wasserstein", "asymmetric", "d(X,Y)=%r, d(Y,X)=%r" % (a, b))
        elif law == "nonneg":
            # bottleneck values are entries of the cost matrix (absolute values and (d-b)/2): exactly >= 0.
            # Wasserstein sums rotated coordinates b*(cos-sin)(pi/4), which is -1e-16*|b| for a diagonal
            # point with b < 0: the documented floating-point tolerance applies to this clause too.
            for nm, f, slack in (("bottleneck", ev.bott, 0.0), ("wasserstein", ev.wass, wt(Y, Z))):
                v = f(Y, Z)
                if not v >= -slack or math.isinf(v):
                    fail(law, nm, "negative-or-nan", "d(Y,Z) = %r" % v)
        elif law == "triangle":
            a, b, c = ev.bott(X, Z), ev.bott(X, Y), ev.bott(Y, Z)
            if not a <= b + c + 4 * bt:
                fail(law, "bottleneck", "violated", "d(X,Z)=%r > d(X,Y)+d(Y,Z)=%r+%r" % (a, b, c))
            a, b, c = ev.wass(X, Z), ev.wass(X, Y), ev.wass(Y, Z)
            if not a <= b + c + 3 * wt(X, Y, Z):
                fail(law, "wasserstein", "violated", "d(X,Z)=%r > d(X,Y)+d(Y,Z)=%r+%r" % (a, b, c))
        elif law == "add-diagonal":
            XD = X + inp["diag"]
            YD = inp["diag"][:1] + Y
            a, b, c = ev.bott(X, Y), ev.bott(XD, Y), ev.bott(XD, YD)
            if a != b or a != c:
                fail(law, "bottleneck", "changed", "d(X,Y)=%r, with diagonal points added to X: %r, to both: %r; "
                     "added %r" % (a, b, c, inp["diag"]))
            a, b, c = ev.wass(X, Y), ev.wass(XD, Y), ev.wass(XD, YD)
            if not (abs(a - b) <= wt(XD, Y) and abs(a - c) <= wt(XD, YD)):
                fail(law, "wasserstein", "changed", "d(X,Y)=%r, with diagonal points added to X: %r, to both: %r"
                     % (a, b, c))
        elif law == "translate":
            XS = [[p[0] + shift, p[1] + shift] for p in X]
            YS = [[p[0] + shift, p[1] + shift] for p in Y]
            a, b = ev.bott(X, Y), ev.bott(XS, YS)
            if not abs(a - b) <= 1e-12 * (sc + abs(shift)) * 4:
                fail(law, "bottleneck", "changed", "d(X,Y)=%r but d(X+s,Y+s)=%r for s=%r" % (a, b, shift))
            a, b = ev.wass(X, Y), ev.wass(XS, YS)
            if not abs(a - b) <= wt(XS, YS) + wt(X, Y):
                fail(law, "wasserstein", "changed", "d(X,Y)=%r but d(X+s,Y+s)=%r for s=%r" % (a, b, shift))
        elif law == "rescale":
            XF = [[p[0] * factor, p[1] * factor] for p in X]
            YF = [[p[0] * factor, p[1] * factor] for p in Y]
            a, b = ev.bott(X, Y), ev.bott(XF, YF)
            if not abs(a * factor - b) <= 1e-12 * sc * factor * 4:
                fail(law, "bottleneck", "nonlinear", "d(X,Y)=%r, d(cX,cY)=%r, c=%r" % (a, b, factor))
            a, b = ev.wass(X, Y), ev.wass(XF, YF)
            if not abs(a * factor - b) <= wt(XF, YF) + factor * wt(X, Y):
                fail(law, "wasserstein", "nonlinear", "d(X,Y)=%r, d(cX,cY)=%r, c=%r" % (a, b, factor))
        elif law == "vs-empty":
            pers = [p[1] - p[0] for p in Y if math.isfinite(p[1])]
            want_b = max(pers) / 2.0 if pers else 0.0
            want_w = math.fsum(pers) / math.sqrt(2.0)
            for a, where in ((ev.bott(Y, []), "d(Y,{})"), (ev.bott([], Y), "d({},Y)")):
                if not abs(a - want_b) <= bt:
                    fail(law, "bottleneck", "wrong", "%s=%r but max persistence/2=%r" % (where, a, want_b))
            # no near-coincident cross pair is involved against the (0,0) placeholder, so the
            # sqrt(eps) noise of the expanded quadratic form does not apply: rel 1e-12 of the scale
            for a, where in ((ev.wass(Y, []), "d(Y,{})"), (ev.wass([], Y), "d({},Y)")):
                if not abs(a - want_w) <= 1e-12 * max(1, len(Y)) * _scale(Y) + 1e-300:
                    fail(law, "wasserstein", "wrong", "%s=%r but total persistence/sqrt2=%r" % (where, a, want_w))
        elif law == "warnings-as-errors":
            # fault injection: other code (python -W error, a test runner) turned warnings into exceptions.  A call may
            # then fail with that warning; if it returns, it must return what it returns otherwise - never another value
            if cfg.get("set_order", "sim") != "sim":
                continue
            import warnings as _w
            bott_, wass_ = mc.sut()
            for P, Q in ((X, Y), (Z, Y)):
                for nm, f_plain, f_raw, tol in (("bottleneck", ev.bott, bott_, 4 * bt), ("wasserstein", ev.wass, wass_, wt(P, Q))):
                    base = f_plain(P, Q)
                    try:
                        with simset.order_scope(sched, cfg.get("mode", "uniform")):
                            with _w.catch_warnings():
                                _w.simplefilter("error")
                                v = float(f_raw(ev.arr(P), ev.arr(Q)))
                    except Warning:
                        sched.count("calls_failed_with_the_warning")
                        continue
                    except Exception as e:
                        fail(law, nm, "other-exception", "with warnings turned into errors %s raised %s: %s" % (nm, type(e).__name__, str(e)[:200]))
                    if not abs(v - base) <= tol:
                        fail(law, nm, "other-value", "with warnings turned into errors %s returned %r, otherwise %r" % (nm, v, base))
        elif law == "bott<=wass":
            a, b = ev.bott(X, Z), ev.wass(X, Z)
            if not a <= b + wt(X, Z):
                fail(law, "bottleneck-vs-wasserstein", "exceeds", "bottleneck %r > wasserstein %r" % (a, b))
    sched.note("laws=%d evals=%d" % (done, ev.n))
    nonempty = (nX > 0) + (nY > 0) + (nZ > 0)
    return {
        "evals": ev.n,
        "key": hashlib.sha1(json.dumps([X, Y, Z]).encode()).hexdigest()[:16],
        "nontrivial": nonempty >= 2 and nX + nY + nZ >= 4 and done >= 5,
        "probes": {"size_ge_60": int(max(nX, nY, nZ) >= 60 or nX + nY >= 60), "size_ge_200": int(nX + nY >= 200),
                   "an_empty_diagram": int(nonempty < 3), "law_instances": done,
                   "long_chain_case": int(bool(cfg.get("chain"))),
                   "x_y_views_of_one_buffer": shared_used, "narrow_float_call_first": int(nf is not None),
                   "diagrams_with_infinite_deaths": int(any(not math.isfinite(p[1]) for d_ in (X, Y, Z) for p in d_))},
        "faults": {"set_iterations_ordered": simset.CTX.iters, "non_insertion_choices": simset.CTX.permuted},
    }


def shrink_candidates(case):
    import copy as _c
    for key_ in ("shared_xy", "narrow_first"):
        if case["inputs"].get(key_) is not None:
            c_ = _c.deepcopy(case)
            c_["inputs"][key_] = None
            yield c_
    if case["config"].get("stack"):
        c_ = _c.deepcopy(case)
        c_["config"]["stack"] = None
        yield c_
    from sim import shrink as shr
    laws = case["config"].get("laws") or []
    for idx in shr.list_deletions(laws, min_len=1):
        c = copy.deepcopy(case)
        for i in reversed(idx):
            del c["config"]["laws"][i]
        yield c
    if case["config"].get("mode") != "insertion" and case["config"].get("set_order", "sim") == "sim":
        c = copy.deepcopy(case)
        c["config"]["mode"] = "insertion"
        yield c
    for name in ("Z", "Y", "X", "diag"):
        lst = case["inputs"][name]
        for idx in shr.list_deletions(lst, min_len=1 if name == "diag" else 0):
            c = copy.deepcopy(case)
            for i in reversed(idx):
                del c["inputs"][name][i]
            if name == "X":
                c["inputs"]["perm"] = list(range(len(c["inputs"]["X"])))[::-1]
            yield c
    for name in ("X", "Y", "Z", "diag"):
        for i, p in enumerate(case["inputs"][name]):
            for k in (0, 1):
                for nv in shr.simpler_numbers(p[k]):
                    c = copy.deepcopy(case)
                    c["inputs"][name][i][k] = nv
                    if name == "diag":
                        c["inputs"][name][i] = [nv, nv]
                    yield c
    for name in ("shift", "factor"):
        for nv in shr.simpler_numbers(case["inputs"][name]):
            c = copy.deepcopy(case)
            c["inputs"][name] = nv
            yield c


def extra_phase(ctx):
    from props import hashsweep
    return hashsweep.sweep(__name__, ctx, n_cases=60 if ctx["tier"] == "quick" else 200,
                           n_seeds=4 if ctx["tier"] == "quick" else 32)
