"""Shared engine of C05 / C17: graph generation, representations, evaluation of
persim.gromov_hausdorff under a scheduler-owned RNG, exact reference."""
import sys
import warnings

import numpy as np
import scipy.sparse as sps

from models import ref_mgh
from sim import simrandom
from sim.sched import HarnessError, InvalidCase, Violation

FORMATS = ("list", "dense", "csr", "csc", "coo", "bsr", "lil", "dok", "dia", "matrix")
FILLS = ("upper", "symmetric", "lower", "mixed")      # mixed: every edge stored once, in either triangle (a relabelled upper-triangular adjacency)
DTYPES = ("int", "int", "bool", "int8", "uint8")
MSO_CHOICES = ([0.5, 1.0], [0.5, 1.0], [0.0, 0.0], [1.0, 1.0], [1.5, 0.0], [0.0, 2.0], [-1.0, 0.5])


def sut():
    import persim  # noqa: F401
    return sys.modules["persim.gromov_hausdorff"].gromov_hausdorff


# ---------------------------------------------------------------- generation
def _norm_edges(edges):
    return sorted({(min(u, v), max(u, v)) for u, v in edges if u != v})


def gen_connected(rng, n, kind=None):
    kind = kind or rng.choice(("path", "cycle", "star", "tree", "tree", "dense", "gnp", "gnp", "clique"))
    if n == 1:
        return []
    if kind == "path":
        e = [(i, i + 1) for i in range(n - 1)]
    elif kind == "cycle":
        e = [(i, (i + 1) % n) for i in range(n)] if n > 2 else [(0, 1)]
    elif kind == "star":
        e = [(0, i) for i in range(1, n)]
    elif kind == "clique":
        e = [(i, j) for i in range(n) for j in range(i)]
    elif kind == "tree":
        e = [(i, rng.randrange(i)) for i in range(1, n)]
    elif kind == "caterpillar":
        spine = max(2, n // 2)
        e = [(i, i + 1) for i in range(spine - 1)] + [(i, rng.randrange(spine)) for i in range(spine, n)]
    elif kind == "lollipop":
        c = max(3, n // 2)
        e = [(i, j) for i in range(min(c, n)) for j in range(i)] + [(i, i - 1) for i in range(c, n)]
    elif kind == "dense":
        e = [(i, j) for i in range(n) for j in range(i)]
        rng.shuffle(e)
        keep = _norm_edges(e)
        for _ in range(rng.randint(1, max(1, n // 2))):
            if len(keep) > n - 1:
                cand = keep[:]
                rng.shuffle(cand)
                for ed in cand:
                    trial = [x for x in keep if x != ed]
                    if len(ref_mgh.components(n, trial)) == 1:
                        keep = trial
                        break
        e = keep
    else:  # gnp over a random spanning tree
        p = rng.choice((0.1, 0.25, 0.5))
        e = [(i, rng.randrange(i)) for i in range(1, n)]
        e += [(i, j) for i in range(n) for j in range(i) if rng.random() < p]
    return [list(x) for x in _norm_edges(e)]


def relabel(rng, n, edges):
    perm = list(range(n))
    rng.shuffle(perm)
    return [list(x) for x in _norm_edges([(perm[u], perm[v]) for u, v in edges])], perm


def gen_graph(rng, max_n):
    r = rng.random()
    if r < 0.05:
        n = 1
    elif r < 0.35:
        n = rng.randint(2, max(2, min(5, max_n)))
    else:
        n = rng.randint(max(2, max_n - 3), max(2, max_n))
    kind = None
    if n >= 7:            # larger graphs: mostly sparse (diameter >= 3), where the bounds are not trivial
        kind = rng.choice(("tree", "tree", "tree", "path", "cycle", "gnp", "star", "caterpillar", "lollipop", None))
    return {"n": n, "edges": gen_connected(rng, n, kind)}


K33 = {"n": 6, "edges": [[i, j] for i in range(3) for j in range(3, 6)]}
PRISM = {"n": 6, "edges": [[0, 1], [1, 2], [0, 2], [3, 4], [4, 5], [3, 5], [0, 3], [1, 4], [2, 5]]}
CUBE = {"n": 8, "edges": [[a, b] for a in range(8) for b in range(a + 1, 8) if bin(a ^ b).count("1") == 1]}
# 3-regular, 8 vertices, diameter 3 like the cube but with triangles: two K4 minus an edge, joined
TWISTED = {"n": 8, "edges": [[0, 1], [0, 2], [1, 2], [1, 3], [2, 3], [4, 5], [4, 6], [5, 6], [5, 7], [6, 7], [0, 4], [3, 7]]}


def gen_pair(rng, max_n):
    if max_n >= 6 and rng.random() < 0.02:
        # regular graphs with equal distance profiles at every vertex that are not isomorphic (randomly relabelled)
        import copy as _copy
        A_, B_ = _copy.deepcopy(rng.choice(((K33, PRISM), (CUBE, TWISTED)) if max_n >= 8 else ((K33, PRISM),)))
        ea, _ = relabel(rng, A_["n"], A_["edges"])
        eb, _ = relabel(rng, B_["n"], B_["edges"])
        G_, H_ = {"n": A_["n"], "edges": ea}, {"n": B_["n"], "edges": eb}
        return (G_, H_, False) if rng.random() < 0.5 else (H_, G_, False)
    G = gen_graph(rng, max_n)
    r = rng.random()
    iso = False
    if r < 0.2:
        e, _ = relabel(rng, G["n"], G["edges"])
        H = {"n": G["n"], "edges": e}
        iso = True
    elif r < 0.35 and G["n"] < max_n:
        # G plus a pendant vertex
        H = {"n": G["n"] + 1, "edges": [list(x) for x in G["edges"]] + [[rng.randrange(G["n"]), G["n"]]]}
        e, _ = relabel(rng, H["n"], H["edges"])
        H = {"n": H["n"], "edges": e}
    elif r < 0.5 and G["n"] >= 3:
        # G with one edge toggled (kept connected)
        e = [tuple(x) for x in G["edges"]]
        u, v = rng.sample(range(G["n"]), 2)
        ed = (min(u, v), max(u, v))
        trial = [x for x in e if x != ed] if ed in e else e + [ed]
        if len(ref_mgh.components(G["n"], trial)) == 1:
            e = trial
        H = {"n": G["n"], "edges": [list(x) for x in _norm_edges(e)]}
    else:
        H = gen_graph(rng, max_n)
    return G, H, iso


def gen_repr(rng):
    fmt = rng.choice(FORMATS)
    if fmt in ("csr", "csc", "coo") and rng.random() < 0.3:
        # the same adjacency matrix with a few zeros stored explicitly (as left behind by A[i, j] = 0 or A - B)
        return {"fmt": fmt, "fill": rng.choice(FILLS), "dtype": "int", "explicit_zeros": rng.randint(1, 3),
                "zseed": rng.randrange(10 ** 6), "mseed": rng.randrange(1000)}
    # bool adjacency only for nested lists / dense arrays: SciPy itself rejects some bool sparse
    # formats, and the property does not speak about dtypes
    return {"fmt": fmt, "fill": rng.choice(FILLS), "mseed": rng.randrange(1000),
            "dtype": rng.choice(DTYPES) if fmt in ("list", "dense") else "int"}


def check_graph_json(g):
    if not isinstance(g, dict) or not isinstance(g.get("n"), int) or g["n"] < 1 or not isinstance(g.get("edges"), list):
        raise InvalidCase("graph must be {n, edges}")
    for e in g["edges"]:
        if not (isinstance(e, list) and len(e) == 2 and all(isinstance(x, int) and 0 <= x < g["n"] for x in e)
                and e[0] != e[1]):
            raise InvalidCase("bad edge %r" % (e,))


def materialize(g, rep):
    n = g["n"]
    A = np.zeros((n, n), dtype=np.int64)
    if rep["fill"] not in FILLS:
        raise InvalidCase("fill")
    import random as _random0
    tri = _random0.Random(rep.get("mseed", 0) * 7919 + n)
    m_edges = len(g["edges"])
    # mixed storage, biased to equal counts above and below the diagonal
    flips = [i % 2 == 0 for i in range(m_edges)]
    tri.shuffle(flips)
    for ei, (u, v) in enumerate(g["edges"]):
        lo, hi = min(u, v), max(u, v)
        if rep["fill"] == "mixed":
            if flips[ei]:
                A[lo, hi] = 1
            else:
                A[hi, lo] = 1
            continue
        if rep["fill"] in ("upper", "symmetric"):
            A[lo, hi] = 1
        if rep["fill"] in ("lower", "symmetric"):
            A[hi, lo] = 1
    if rep["dtype"] == "bool":
        A = A.astype(bool)
    elif rep["dtype"] in ("int8", "uint8"):
        A = A.astype(rep["dtype"])
    f = rep["fmt"]
    if f == "list":
        return [[(bool(x) if rep["dtype"] == "bool" else int(x)) for x in row] for row in A]
    if f == "dense":
        return A
    if f == "matrix":
        return np.asmatrix(A)              # what sparse.todense() returns: an ndarray subclass whose * is a matrix product
    if f in ("bsr", "lil", "dok", "dia"):
        if rep["dtype"] != "int":
            A = A.astype(np.int64)
        if f == "bsr":
            bs = 2 if n % 2 == 0 and n >= 2 else (3 if n % 3 == 0 and n >= 3 else 1)
            return sps.bsr_matrix(A, blocksize=(bs, bs))           # blocks store their zeros explicitly
        return {"lil": sps.lil_matrix, "dok": sps.dok_matrix, "dia": sps.dia_matrix}[f](A)
    if f in ("csr", "csc", "coo"):
        k = int(rep.get("explicit_zeros", 0) or 0)
        if not k:
            return {"csr": sps.csr_matrix, "csc": sps.csc_matrix, "coo": sps.coo_matrix}[f](A)
        import random as _random
        r_ = _random.Random(rep.get("zseed", 0))
        rows, cols = np.nonzero(A)
        rows, cols = list(rows), list(cols)
        vals = [1] * len(rows)
        free = [(i, j) for i in range(n) for j in range(n) if i != j and not A[i, j] and not A[j, i]]
        r_.shuffle(free)
        for i, j in free[:k]:
            rows.append(i), cols.append(j), vals.append(0)      # stored, but zero: not an edge of the graph
        M_ = sps.coo_matrix((np.array(vals, dtype=np.int64), (np.array(rows, dtype=np.int64), np.array(cols, dtype=np.int64))),
                            shape=(n, n))
        if f == "coo":
            return M_
        M2 = M_.tocsr() if f == "csr" else M_.tocsc()       # conversion keeps explicitly stored zeros
        return M2
    raise InvalidCase("format")


# ---------------------------------------------------------------- reference
def exact_double_mgh(G, H, budget=None):
    if budget is None:
        # measured: 98 % of the generated 9-10-vertex pairs finish within 30 000 nodes, the rest needs > 300 000
        # (9 s each, more than the other 98 % together); those few fall back to the size-free clauses
        budget = 300000 if max(G["n"], H["n"]) <= 8 else 40000
    DX = ref_mgh.distance_matrix(G["n"], G["edges"])
    DY = ref_mgh.distance_matrix(H["n"], H["edges"])
    if np.isinf(DX).any() or np.isinf(DY).any():
        raise HarnessError("exact reference asked for a disconnected graph")
    DX = DX.astype(np.int64)
    DY = DY.astype(np.int64)
    v = ref_mgh.double_mgh(DX, DY, budget)
    if v is not None and G["n"] <= 4 and H["n"] <= 4:
        flat = max(ref_mgh.min_distortion_flat(DX, DY), ref_mgh.min_distortion_flat(DY, DX))
        if flat != v:
            raise HarnessError("mGH reference models disagree: B&B %r vs enumeration %r" % (v, flat))
    return v, int(DX.max()), int(DY.max())


def largest_components(g):
    comps = ref_mgh.components(g["n"], g["edges"])
    mx = max(len(c) for c in comps)
    out = []
    for c in comps:
        if len(c) == mx:
            idx = {v: i for i, v in enumerate(c)}
            out.append({"n": len(c), "edges": [[idx[u], idx[v]] for u, v in g["edges"] if u in idx and v in idx]})
    return out, len(comps)


# ---------------------------------------------------------------- evaluation
class parallel_world(object):
    """gromov_hausdorff runs no workers today; should a change make it (joblib over the pairs of a collection), the
    workers belong to the scheduler like the imager's: a SimParallel world for the duration of the case."""

    def __init__(self, sched, case):
        self.sched, self.cfg, self.seed = sched, case.get("config") or {}, int(case.get("sched_seed", 0))

    def __enter__(self):
        from sim import simparallel
        mode = self.cfg.get("parallel_mode") or ("thread-coop", "thread-preempt", "proc")[(self.seed >> 3) % 3]
        if mode not in ("proc", "thread-coop", "thread-preempt"):
            raise InvalidCase("parallel mode")
        # the caller's ambient joblib configuration may also set a default number of workers
        dn = self.cfg.get("default_n_jobs", (None, 2, 3)[(self.seed >> 6) % 3])
        self.world = simparallel.World(self.sched, mode, 8, default_n_jobs=dn)
        simparallel.install(self.world)
        return self.world

    def __exit__(self, *a):
        from sim import simparallel
        simparallel.uninstall()
        return False


def call_gh(sched, args, mso, mode, k, warn_filter="always", site="gromov_hausdorff"):
    """args = (AG, AH) or (collection,).  Returns (result, n_disconnected_warnings, draws)."""
    gh = sut()
    with simrandom.rng_scope(sched, mode, k) as sr:
        with warnings.catch_warnings(record=True) as w:
            warnings.simplefilter(warn_filter)
            try:
                if mso is None:
                    res = gh(*args)
                else:
                    res = gh(*args, mapping_sample_size_order=np.array(mso, dtype=float))
            except Violation:
                raise
            except Exception as e:
                raise Violation("no-exception", site, type(e).__name__,
                                "gromov_hausdorff raised %s: %s" % (type(e).__name__, str(e)[:300]))
    nw = len([x for x in w if "disconnected" in str(x.message)])
    sched.count("rng_draws", len(sr.draws))
    sched.count("rng_mode:" + mode)
    return res, nw, sr.draws


def check_bracket(lb, ub, exact2, site, iso=False, where=""):
    """The clauses of C05 for one pair.  exact2 = 2*mGH or None (reference unavailable)."""
    for nm, v in (("lower", lb), ("upper", ub)):
        v = float(v)
        if not np.isfinite(v) or v < 0 or (2 * v) != round(2 * v):
            raise Violation("non-negative-multiple-of-half", site, nm,
                            "%s bound %r is not a non-negative multiple of 1/2 %s" % (nm, v, where))
    if lb > ub:
        raise Violation("lower<=upper", site, "crossed", "lower %r > upper %r %s" % (lb, ub, where))
    if iso and lb != 0:
        raise Violation("isomorphic=>lower==0", site, "positive", "isomorphic graphs got lower bound %r %s" % (lb, where))
    if exact2 is not None:
        ex = 0.5 * exact2
        if lb > ex:
            raise Violation("lower<=true-distance", site, "unsound-lower",
                            "lower bound %r exceeds the true mGH distance %r %s" % (lb, ex, where))
        if ub < ex:
            raise Violation("true-distance<=upper", site, "unsound-upper",
                            "upper bound %r is below the true mGH distance %r %s" % (ub, ex, where))
