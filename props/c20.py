"""C20 - plots draw exactly the data and matchings they are given, on the axes they
are given, whether or not that axes is pyplot's current one.

K clients each own a figure/axes and issue plotting calls; between calls the
environment actor (the scheduler) moves pyplot's *current* figure/axes, opens and
closes stray figures.  After every call the artists added to the target axes are
compared with the expectation derived from the data, and every other axes in the
process must be exactly as before (nothing lost to, or received from, someone
else's call)."""
import copy
import hashlib
import json
import math
import sys

import numpy as np

from props import dgmgen, match_common as mc
from sim import simset
from sim.sched import InvalidCase, Violation

ID = "C20"
TITLE = "Plots draw exactly the data and matchings they are given"
CASE_TIMEOUT_S = 120.0
PLAN = {
    "quick": {"runs": 4800, "chunk": 10, "shrink_s": 40.0},
    "thorough": {"budget_s": 600.0, "chunk": 10, "shrink_s": 90.0},
}
RULE = ("case = K=2..3 clients, each owning a figure/axes, issuing 2..8 calls: plot_diagrams (one or several diagrams, "
        "with/without infinite deaths, option combinations of plot_only, lifetime, diagonal, legend, labels, title, "
        "xy_range; ax = own axes or ax=None) and bottleneck_matching / wasserstein_matching with matchings obtained "
        "from the real distance functions under a scheduler-owned set order (empty diagrams included); 2-D landscape "
        "plots as unchecked background traffic. Before each call the environment actor may make another client's "
        "axes or a stray new figure pyplot's current one, or close stray figures. Oracle after every call: scatter "
        "collections == float32 points (b,d) / (b,d-b), infinite deaths on an infinity line strictly inside the "
        "y-limits, limits contain all finite points or equal xy_range, title/labels/legend; matching plots: drawn "
        "segment multiset == segments derived from the matching rows (point-point, point-perpendicular foot), distinct "
        "style for a maximal-cost row; every other axes unchanged, no stray figure created. distinct_nontrivial = "
        "distinct cases with >= 2 clients in which at least one checked call ran while its axes was not pyplot's current "
        "one.")
ASSUMPTIONS = [
    "Agg canvas; artists inspected as data (offsets, line data, labels, limits), nothing is rasterised",
    "ax=None means pyplot's current axes at call time",
    "offsets compared rel 1e-6 (single precision), segment endpoints rel 1e-6",
    "sampling, not proof",
]
REAL_COMPONENTS = ["persim.visuals.plot_diagrams / bottleneck_matching / wasserstein_matching (working tree)",
                   "matplotlib pyplot state machine (real)", "persim.bottleneck / wasserstein (matchings)",
                   "persim.landscapes.visuals.plot_landscape_simple (background traffic)"]
STUB_COMPONENTS = ["builtin set inside hopcroftkarp -> SimSet when computing the matchings that are plotted"]
ENV = ("nothing", "nothing", "sca-other", "sca-other", "new-figure", "close-stray", "figure-other", "rcparams")
RC_CHOICES = (("axes.titlelocation", "left"), ("axes.titlelocation", "right"), ("lines.linewidth", 3.0),
              ("scatter.marker", "x"), ("axes.xmargin", 0.3), ("lines.linestyle", ":"), ("axes.grid", True),
              ("legend.loc", "upper left"), ("font.size", 7.0))


def reset_world():
    from sim import world
    world.reload_persim(("persim.bottleneck", "persim.wasserstein", "persim.visuals"))


def plt_mod():
    import matplotlib
    matplotlib.use("Agg", force=False)
    import matplotlib.pyplot as plt
    return plt


def vis():
    import persim  # noqa: F401
    return sys.modules["persim.visuals"]


INT_DTYPES = {"i64": np.int64, "u8": np.uint8, "i16": np.int16, "u16": np.uint16, "i32": np.int32}


# ---------------------------------------------------------------- generation
def gen_dgm(rng, allow_inf=True, allow_empty=False, max_n=6):
    pts, _, _, _ = dgmgen.gen_diagram(rng, max_n, style=rng.choice(("lattice", "float", "ilattice")),
                                      allow_inf=allow_inf, scale=rng.choice((1.0, 1.0, 10.0, 0.01)), shift=0.0)
    if allow_empty and rng.random() < 0.3:
        pts = []
    if not pts and not allow_empty:
        pts = [[0.0, 1.0]]
    return pts


def gen_case(rng, tier):
    K = rng.randint(2, 3)
    # arrays the clients keep and hand to several calls (as users do), some of them single precision
    pool = []
    for _ in range(rng.randint(2, 4)):
        pts = gen_dgm(rng)
        dt = rng.choice(("f64", "f64", "f32", "i64"))
        if dt == "f32":      # values exactly representable in single precision
            pts = [[round(x * 64) / 64.0 if math.isfinite(x) else x for x in p] for p in pts]
            pts = [[p[0], max(p)] for p in pts]
        pool.append({"pts": pts, "dtype": dt})
    ops = []
    for _ in range(rng.randint(2, 8 if tier == "quick" else 20)):
        k = rng.randrange(K)
        kind = rng.choice(("plot_diagrams", "plot_diagrams", "plot_diagrams", "bottleneck_matching",
                           "wasserstein_matching", "landscape"))
        op = {"client": k, "op": kind, "env": rng.choice(ENV), "ax": rng.choice(("own", "own", "own", "none"))}
        if kind == "plot_diagrams":
            nd = rng.choice((1, 1, 2, 3)) if rng.random() < 0.97 else rng.randint(9, 14)      # e.g. one diagram per sample
            op["dgms"] = [gen_dgm(rng, allow_empty=rng.random() < 0.3) for _ in range(nd)]
            op["as_list"] = nd > 1 or rng.random() < 0.5
            op["int_arrays"] = rng.random() < 0.3
            op["layout"] = rng.choice(("c", "c", "c", "fortran", "transposed"))
            if rng.random() < 0.45:
                op["pool_ids"] = [rng.randrange(len(pool)) for _ in range(nd)]
                op["dgms"] = [pool[i]["pts"] for i in op["pool_ids"]]
                op["int_arrays"] = False
            o = {}
            if rng.random() < 0.3:
                o["lifetime"] = True
            if rng.random() < 0.3:
                o["diagonal"] = False
            if rng.random() < 0.3:
                o["legend"] = False
            if rng.random() < 0.3:
                o["title"] = "T%d" % rng.randrange(100)
            if rng.random() < 0.3:
                r_ = rng.random()
                if r_ < 0.6:
                    o["labels"] = ["L%d" % i for i in range(nd)]
                elif r_ < 0.8:
                    o["labels"] = "run 7"                                  # one string for all diagrams
                else:
                    o["labels"] = ["L%d" % (i // 2) for i in range(nd)]    # a repeated label
            if nd > 1 and rng.random() < 0.3:
                o["plot_only"] = sorted(rng.sample(range(nd), rng.randint(1, nd)))
            if rng.random() < 0.2:
                o["xy_range"] = [-1.0, 12.0, -2.0, 15.0]
            op["opts"] = o
        elif kind in ("bottleneck_matching", "wasserstein_matching"):
            op["a"] = gen_dgm(rng, allow_inf=False, allow_empty=True)
            op["b"] = gen_dgm(rng, allow_inf=False, allow_empty=True)
            if rng.random() < 0.5 and op["a"]:
                op["b"] = dgmgen.perturbed_copy(rng, op["a"], 1.0, 6, "float")
            op["mode"] = rng.choice(("uniform", "reverse", "insertion"))
            if rng.random() < 0.35:      # integer-valued diagrams, handed over as integer arrays
                op["a"] = [[float(round(x)) for x in p] for p in op["a"]]
                op["b"] = [[float(round(x)) for x in p] for p in op["b"]]
                op["a"] = [[p[0], max(p)] for p in op["a"]]
                op["b"] = [[p[0], max(p)] for p in op["b"]]
                op["int_arrays"] = True
                # narrow integer types, with values near the top of their range (sums and differences of two
                # coordinates leave the type)
                dt = rng.choice(("i64", "i64", "u8", "i16", "u16", "i32"))
                vals = [x for p in op["a"] + op["b"] for x in p]
                if dt != "i64" and vals and min(vals) >= 0:
                    cap = {"u8": 250, "i16": 32000, "u16": 65000, "i32": 2000000000}[dt]
                    f = float(int(cap // max(max(vals), 1.0)))
                    if f >= 1:
                        op["a"] = [[x * f for x in p] for p in op["a"]]
                        op["b"] = [[x * f for x in p] for p in op["b"]]
                        op["int_dtype"] = dt
            if rng.random() < 0.3:
                op["labels"] = ["first", "second"]
        else:
            op["bars"] = [[0.0, 3.0], [1.0, 4.0]] if rng.random() < 0.5 else [[0.0, 2.0]]
            op["approx"] = rng.random() < 0.5
        ops.append(op)
    return {"inputs": {"clients": K, "pool": pool}, "ops": ops, "config": {}}


# ---------------------------------------------------------------- snapshots
def snapshot(plt):
    snap = {}
    # NB: Gcf.get_fig_manager(num) would make that figure the active one; only read-only accessors here
    for mgr in plt._pylab_helpers.Gcf.get_all_fig_managers():
        fig, num = mgr.canvas.figure, mgr.num
        for ax in fig.axes:
            leg = ax.get_legend()
            snap[id(ax)] = {
                "fig": num,
                "collections": [id(a) for a in ax.collections],
                "lines": [id(a) for a in ax.lines],
                "texts": [id(a) for a in ax.texts],
                "patches": [id(a) for a in ax.patches],
                "images": [id(a) for a in ax.images],
                "xlim": tuple(ax.get_xlim()), "ylim": tuple(ax.get_ylim()),
                "title": ax.get_title(), "xlabel": ax.get_xlabel(), "ylabel": ax.get_ylabel(),
                "legend": None if leg is None else [t.get_text() for t in leg.get_texts()],
            }
    return snap


def diff_axes(before, after):
    """Names of the things that changed on an axes between two snapshots."""
    return [k for k in before if k != "fig" and before[k] != after.get(k)]


def seg_of(line):
    x, y = np.asarray(line.get_xdata(), float), np.asarray(line.get_ydata(), float)
    if len(x) != 2:
        return None
    return ((float(x[0]), float(y[0])), (float(x[1]), float(y[1])))


def same_pt(p, q, tol):
    return abs(p[0] - q[0]) <= tol and abs(p[1] - q[1]) <= tol


def same_seg(s, t, tol):
    return (same_pt(s[0], t[0], tol) and same_pt(s[1], t[1], tol)) or (same_pt(s[0], t[1], tol) and same_pt(s[1], t[0], tol))


# ---------------------------------------------------------------- oracles
def check_plot_diagrams(ax, new_colls, new_lines, dgms, opts, site, opi):
    sel = list(range(len(dgms)))
    if opts.get("plot_only"):
        sel = list(opts["plot_only"])
    shown = [np.array(dgms[i], dtype=float).reshape(-1, 2) for i in sel]
    lifetime = bool(opts.get("lifetime"))
    if len(new_colls) != len(shown):
        raise Violation("one-scatter-collection-per-diagram", site, "count",
                        "%d diagrams plotted, %d scatter collections added to the axes" % (len(shown), len(new_colls)), opi)
    has_inf = any(np.isinf(d).any() for d in shown)
    xlim, ylim = ax.get_xlim(), ax.get_ylim()
    y_inf = None
    if has_inf:
        cands = [l for l in new_lines if "infty" in str(l.get_label())]
        if len(cands) != 1:
            raise Violation("infinity-line", site, "missing", "diagrams have infinite deaths but %d lines labelled infinity were drawn" % len(cands), opi)
        yd = np.asarray(cands[0].get_ydata(), float)
        if not (len(yd) >= 2 and np.all(yd == yd[0])):
            raise Violation("infinity-line", site, "not-horizontal", "infinity line has y data %r" % (yd.tolist(),), opi)
        y_inf = float(yd[0])
        if not (min(ylim) < y_inf < max(ylim)):
            raise Violation("infinity-line", site, "outside-view", "infinity line at y=%r, y-limits %r" % (y_inf, ylim), opi)
    finite_x, finite_y = [], []
    for n, (coll, d) in enumerate(zip(new_colls, shown)):
        off = np.asarray(coll.get_offsets(), float).reshape(-1, 2)
        exp = d.astype(np.float32).astype(float)
        if lifetime:
            e32 = d.astype(np.float32)
            e32[:, 1] = e32[:, 1] - e32[:, 0]
            exp = e32.astype(float)
        if off.shape != exp.shape:
            raise Violation("scatter-offsets==points", site, "count", "diagram #%d has %d points, its collection %d offsets"
                            % (n, len(exp), len(off)), opi)
        for (ox, oy), (ex, ey) in zip(off, exp):
            tolx = 1e-6 * max(abs(ex), 1e-30) + 1e-30
            if not abs(ox - ex) <= tolx:            # NaN-safe
                raise Violation("scatter-offsets==points", site, "birth", "diagram #%d: drawn x %r, birth %r" % (n, ox, ex), opi)
            if math.isinf(ey):
                if not abs(oy - y_inf) <= 1e-6 * max(abs(y_inf), 1e-30):      # offsets are single precision; NaN-safe
                    raise Violation("infinite-deaths-on-infinity-line", site, "off-line",
                                    "diagram #%d: infinite death drawn at y=%r, infinity line at %r" % (n, oy, y_inf), opi)
            else:
                scale = max(abs(ey), abs(ex) if lifetime else 0.0, 1e-30)
                if not abs(oy - ey) <= 2e-6 * scale + 1e-30:
                    raise Violation("scatter-offsets==points", site, "lifetime" if lifetime else "death",
                                    "diagram #%d: drawn y %r, expected %r" % (n, oy, ey), opi)
                finite_y.append(oy)
            finite_x.append(ox)
    if opts.get("xy_range"):
        r = opts["xy_range"]
        if not lifetime and (tuple(xlim) != (r[0], r[1]) or tuple(ylim) != (r[2], r[3])):
            raise Violation("limits==xy_range", site, "differs", "xy_range %r requested, limits x=%r y=%r" % (r, xlim, ylim), opi)
        if lifetime and tuple(xlim) != (r[0], r[1]):
            raise Violation("limits==xy_range", site, "differs", "xy_range %r requested, x-limits %r" % (r, xlim), opi)
    else:
        for vals, lim, nm in ((finite_x, xlim, "x"), (finite_y, ylim, "y")):
            if vals and not (min(lim) <= min(vals) and max(vals) <= max(lim)):
                raise Violation("limits-contain-finite-points", site, nm,
                                "%s-limits %r do not contain the plotted values [%r, %r]" % (nm, lim, min(vals), max(vals)), opi)
    if "title" in opts and opts["title"] not in (ax.get_title(loc="center"), ax.get_title(loc="left"), ax.get_title(loc="right")):
        # which of the three title slots is used follows matplotlib's configuration; the text must be the requested one
        raise Violation("title-as-requested", site, "differs", "title %r requested, axes has %r / %r / %r" % (
            opts["title"], ax.get_title(loc="left"), ax.get_title(loc="center"), ax.get_title(loc="right")), opi)
    if ax.get_xlabel() != "Birth" or ax.get_ylabel() != ("Lifetime" if lifetime else "Death"):
        raise Violation("axis-labels", site, "differs", "axis labels %r / %r" % (ax.get_xlabel(), ax.get_ylabel()), opi)
    leg = ax.get_legend()
    want_legend = opts.get("legend", True)
    if want_legend and leg is None:
        raise Violation("legend-as-requested", site, "missing", "legend requested but absent", opi)
    labels = opts.get("labels")
    if labels is None:
        labels = ["$H_{%d}$" % i for i in range(len(dgms))]
    if not isinstance(labels, list):
        labels = [labels] * len(dgms)
    want_labels = [labels[i] for i in sel]
    got_labels = [c.get_label() for c in new_colls]
    if got_labels != want_labels:
        raise Violation("legend-as-requested", site, "labels", "collections are labelled %r, requested %r" % (got_labels, want_labels), opi)
    if want_legend and leg is not None:
        texts = [t.get_text() for t in leg.get_texts()]
        for w in set(want_labels):
            if texts.count(w) < want_labels.count(w):
                raise Violation("legend-as-requested", site, "labels" if w not in texts else "label-multiplicity",
                                "legend shows %r; %d plotted diagram(s) carry the label %r" % (texts, want_labels.count(w), w), opi)


def expected_segments(A, B, rows):
    A = np.array(A, dtype=float).reshape(-1, 2) if len(A) else np.array([[0.0, 0.0]])
    B = np.array(B, dtype=float).reshape(-1, 2) if len(B) else np.array([[0.0, 0.0]])
    segs = []
    for i, j, c in rows:
        i, j = int(i), int(j)
        if i == -1 and j == -1:
            continue
        if i == -1:
            p = B[j]
            m = (p[0] + p[1]) / 2.0
            segs.append(((float(p[0]), float(p[1])), (m, m), float(c)))
        elif j == -1:
            p = A[i]
            m = (p[0] + p[1]) / 2.0
            segs.append(((float(p[0]), float(p[1])), (m, m), float(c)))
        else:
            segs.append(((float(A[i, 0]), float(A[i, 1])), (float(B[j, 0]), float(B[j, 1])), float(c)))
    return segs


def check_matching(kind, ax, new_lines, new_colls, A, B, rows, site, opi, want_labels=None):
    exp = expected_segments(A, B, rows)
    coords = [abs(v) for s in exp for p in s[:2] for v in p]
    tol = 1e-6 * max(coords + [1e-30]) + 1e-12
    drawn = [(l, seg_of(l)) for l in new_lines]
    drawn = [(l, s) for l, s in drawn if s is not None]
    used = set()
    matched = []
    for e in exp:
        hit = None
        for n, (l, s) in enumerate(drawn):
            if n not in used and same_seg(s, e[:2], tol):
                hit = n
                break
        if hit is None:
            what = "point-to-diagonal" if (e[1][0] == e[1][1] and (e[0] != e[1])) else "point-to-point"
            raise Violation("one-segment-per-matched-pair-on-the-given-axes", site, "missing/" + what,
                            "no segment joining %r and %r was drawn on the axes given to %s (%d two-point lines were "
                            "added to it: %r)" % (e[0], e[1], kind, len(drawn), [s for _, s in drawn][:6]), opi)
        used.add(hit)
        matched.append((drawn[hit][0], e))
    extra = [s for n, (l, s) in enumerate(drawn) if n not in used]
    # plot_diagrams draws the dashed diagonal (and nothing else two-pointed for finite diagrams)
    non_diag = [s for s in extra if not (abs(s[0][0] - s[0][1]) <= tol and abs(s[1][0] - s[1][1]) <= tol)]
    if non_diag:
        raise Violation("one-segment-per-matched-pair-on-the-given-axes", site, "extra",
                        "segments that correspond to no matching row were drawn: %r" % (non_diag[:4],), opi)
    if len(new_colls) < 2:
        raise Violation("matching-plot-shows-both-diagrams", site, "count", "%d scatter collections on the given axes" % len(new_colls), opi)
    if want_labels is not None and len(new_colls) == 2:
        got = [str(c.get_label()) for c in new_colls]
        if got != list(want_labels):
            raise Violation("legend-as-requested", site, "labels",
                            "the two diagrams of the matching plot are labelled %r, requested %r" % (got, want_labels), opi)
    # a degenerate view (all points equal) makes plot_diagrams' own diagonal a zero-length line that is
    # geometrically indistinguishable from a zero-length matching segment: the style clause is skipped then
    ambiguous = any(same_seg(s, e[:2], tol) for s in extra for e in exp)
    if kind == "bottleneck_matching" and len(matched) >= 2 and not ambiguous:
        styles = [(str(l.get_color()), float(l.get_linewidth()), str(l.get_linestyle())) for l, _ in matched]
        cmax = max(e[2] for _, e in matched)
        uniq = [n for n, s in enumerate(styles) if styles.count(s) == 1]
        maj = max(set(styles), key=styles.count)
        marked = [n for n, s in enumerate(styles) if s != maj] if len(set(styles)) > 1 else []
        if len(matched) == 2 and len(set(styles)) == 2:
            marked = [n for n in (0, 1) if matched[n][1][2] == cmax][:1] if styles[0] != styles[1] else []
            # with two segments either may be "the majority": accept iff a max-cost one is styled differently
            if not marked:
                raise Violation("bottleneck-pair-marked-distinctly", site, "unmarked", "styles %r" % (styles,), opi)
        else:
            if len(marked) != 1:
                raise Violation("bottleneck-pair-marked-distinctly", site, "unmarked" if not marked else "several",
                                "%d segments are styled differently from the rest (styles %r)" % (len(marked), sorted(set(styles))), opi)
            if matched[marked[0]][1][2] != cmax:
                raise Violation("bottleneck-pair-marked-distinctly", site, "wrong-row",
                                "the distinctly styled segment has cost %r, the largest row cost is %r" % (matched[marked[0]][1][2], cmax), opi)
        del uniq


# ---------------------------------------------------------------- run
def run_case(case, sched):
    plt = plt_mod()
    V = vis()
    K = case["inputs"].get("clients", 2)
    if not isinstance(K, int) or not 1 <= K <= 4:
        raise InvalidCase("clients")
    plt.close("all")
    import matplotlib
    matplotlib.rcdefaults()
    figs = []
    for k in range(K):
        fig, ax = plt.subplots()
        figs.append((fig, ax))
    own = {id(ax): k for k, (fig, ax) in enumerate(figs)}
    pool_arrays = []
    for pe in case["inputs"].get("pool") or []:
        dgmgen.check_diagram_json(pe.get("pts"))
        a_ = np.array(pe["pts"], dtype=float).reshape(-1, 2)
        dt = pe.get("dtype", "f64")
        if dt == "f32":
            a_ = a_.astype(np.float32)
        elif dt == "i64":
            if np.isfinite(a_).all() and np.all(a_ == np.round(a_)):
                a_ = a_.astype(np.int64)
        elif dt != "f64":
            raise InvalidCase("pool dtype")
        pool_arrays.append(a_)
    reused = 0
    label_objs = {}
    labels_reused = [0]

    def kept_labels(lst):
        # a caller defines its list of names once and hands the same object to every plot that uses those names
        if not all(isinstance(x, str) for x in lst):
            raise InvalidCase("labels")
        key = json.dumps(lst)
        if key in label_objs:
            labels_reused[0] += 1
        return label_objs.setdefault(key, list(lst))
    strays = []
    checked = 0
    not_current = 0
    env_fired = {}
    for opi, op in enumerate(case["ops"]):
        k = op.get("client")
        if not isinstance(k, int) or not 0 <= k < K:
            raise InvalidCase("client")
        kind = op.get("op")
        # ---- environment actor: other parties move pyplot's global state
        env = op.get("env", "nothing")
        if env == "sca-other" and K > 1:
            other = (k + 1 + sched.choose(K - 1, "env.other")) % K
            plt.sca(figs[other][1])
        elif env == "figure-other" and K > 1:
            other = (k + 1 + sched.choose(K - 1, "env.other")) % K
            plt.figure(figs[other][0].number)
        elif env == "new-figure":
            f = plt.figure()
            f.add_subplot(111)
            strays.append(f)
        elif env == "close-stray" and strays:
            plt.close(strays.pop(sched.choose(len(strays), "env.close")))
        elif env == "rcparams":
            # other code in the process configured matplotlib's defaults (its rcParams are process-global)
            import matplotlib as _mpl
            key_, val_ = RC_CHOICES[sched.choose(len(RC_CHOICES), "env.rc")]
            _mpl.rcParams[key_] = val_
        elif env not in ("nothing", "sca-other", "figure-other", "new-figure", "close-stray"):
            raise InvalidCase("env")
        env_fired[env] = env_fired.get(env, 0) + 1
        given = figs[k][1] if op.get("ax", "own") == "own" else None
        target = given if given is not None else plt.gca()
        is_current = (plt.get_fignums() and plt.gcf() is target.figure and plt.gca() is target)
        before = snapshot(plt)
        nfig_before = len(plt.get_fignums())
        site = "%s(ax=%s,%s)" % (kind, "given" if given is not None else "None", "current" if is_current else "not-current")
        try:
            if kind == "plot_diagrams":
                dg = op.get("dgms")
                if not dg:
                    raise InvalidCase("dgms")
                for d in dg:
                    dgmgen.check_diagram_json(d)
                opts = copy.deepcopy(op.get("opts") or {})
                if "plot_only" in opts:
                    po = opts["plot_only"]
                    if not (isinstance(po, list) and po and all(isinstance(i, int) and 0 <= i < len(dg) for i in po)):
                        raise InvalidCase("plot_only")
                if "labels" in opts and isinstance(opts["labels"], list) and len(opts["labels"]) != len(dg):
                    raise InvalidCase("labels")
                arrs = [np.array(d, dtype=float).reshape(-1, 2) for d in dg]
                if op.get("pool_ids") is not None:
                    ids_ = op["pool_ids"]
                    pl_ = case["inputs"].get("pool") or []
                    if len(ids_) != len(dg) or any(not isinstance(i, int) or not 0 <= i < len(pool_arrays) for i in ids_) \
                            or any(pl_[i]["pts"] != d for i, d in zip(ids_, dg)):
                        raise InvalidCase("pool reference")
                    arrs = [pool_arrays[i] for i in ids_]        # the caller's own, reused arrays
                    reused += 1
                if op.get("int_arrays"):
                    arrs = [a.astype(np.int64) if np.isfinite(a).all() and np.all(a == np.round(a)) else a for a in arrs]
                lay = op.get("layout", "c")
                if lay == "fortran" and op.get("pool_ids") is None:
                    arrs = [np.asfortranarray(a_) for a_ in arrs]
                elif lay == "transposed" and op.get("pool_ids") is None:
                    arrs = [np.array([a_[:, 0], a_[:, 1]]).T for a_ in arrs]       # a (2, n) array seen as (n, 2)
                arg = arrs if (op.get("as_list", True) or len(arrs) > 1) else arrs[0]
                if isinstance(opts.get("labels"), list):
                    opts["labels"] = kept_labels(opts["labels"])
                V.plot_diagrams(arg, ax=given, **opts)
            elif kind in ("bottleneck_matching", "wasserstein_matching"):
                A, B = op.get("a"), op.get("b")
                dgmgen.check_diagram_json(A)
                dgmgen.check_diagram_json(B)
                if any(not math.isfinite(p[1]) for p in A + B):
                    raise InvalidCase("finite diagrams")
                Aa = np.array(A, dtype=float).reshape(-1, 2) if A else np.zeros((0, 2))
                Ba = np.array(B, dtype=float).reshape(-1, 2) if B else np.zeros((0, 2))
                if op.get("int_arrays") and all(float(x).is_integer() for p in A + B for x in p):
                    idt = op.get("int_dtype", "i64")
                    if idt not in INT_DTYPES:
                        raise InvalidCase("int_dtype")
                    info = np.iinfo(INT_DTYPES[idt])
                    if any(not info.min <= x <= info.max for p in A + B for x in p):
                        raise InvalidCase("value outside the integer type")
                    Aa, Ba = Aa.astype(INT_DTYPES[idt]), Ba.astype(INT_DTYPES[idt])
                if kind == "bottleneck_matching":
                    _, rows, _ = mc.call_bottleneck(sched, Aa, Ba, True, op.get("mode", "uniform"), "ignore")
                else:
                    _, rows, _ = mc.call_wasserstein(Aa, Ba, True, "ignore")
                kw = {"labels": kept_labels(op["labels"])} if op.get("labels") else {}
                getattr(V, kind)(Aa, Ba, rows, ax=given, **kw)
            elif kind == "landscape":
                import persim.landscapes as pl
                bars = op.get("bars") or [[0.0, 1.0]]
                if op.get("approx"):
                    L = pl.PersLandscapeApprox(dgms=[np.array(bars, dtype=float)], hom_deg=0, num_steps=20)
                else:
                    L = pl.PersLandscapeExact(dgms=[np.array(bars, dtype=float)], hom_deg=0)
                sys.modules["persim.landscapes.visuals"].plot_landscape_simple(L, ax=figs[k][1])
                continue                      # background traffic: no assertion about itself
            else:
                raise InvalidCase("op")
        except (InvalidCase, Violation):
            raise
        except Exception as e:
            empt = ""
            if kind != "plot_diagrams":
                empt = "/both-empty" if (not op.get("a") and not op.get("b")) else ("/one-empty" if (not op.get("a") or not op.get("b")) else "")
            raise Violation("no-exception", kind, type(e).__name__ + empt,
                            "%s raised %s: %s" % (kind, type(e).__name__, str(e)[:300]), opi)
        after = snapshot(plt)
        checked += 1
        not_current += 0 if is_current else 1
        # ---- isolation / conservation
        if len(plt.get_fignums()) != nfig_before:
            raise Violation("no-stray-figure", site, "figure-created", "the call changed the number of open figures from %d to %d"
                            % (nfig_before, len(plt.get_fignums())), opi)
        for axid, b in before.items():
            if axid == id(target):
                continue
            a = after.get(axid)
            if a is None:
                raise Violation("other-axes-untouched", site, "axes-lost", "an axes disappeared", opi)
            ch = diff_axes(b, a)
            if ch:
                who = "client %d's axes" % own[axid] if axid in own else "a stray figure's axes"
                art = [c_ for c_ in ch if c_ in ("lines", "collections", "texts", "patches", "images")]
                raise Violation("other-axes-untouched", site, "received-artists" if art else "view-or-labels-changed",
                                "%s (not the axes the call was given) changed: %s; e.g. lines %d -> %d, collections %d -> %d"
                                % (who, ch, len(b["lines"]), len(a["lines"]), len(b["collections"]), len(a["collections"])), opi)
        # ---- artists added to the target
        b = before.get(id(target), {"collections": [], "lines": []})
        new_colls = [c for c in target.collections if id(c) not in set(b["collections"])]
        new_lines = [l for l in target.lines if id(l) not in set(b["lines"])]
        if kind == "plot_diagrams":
            check_plot_diagrams(target, new_colls, new_lines, op["dgms"], dict(op.get("opts") or {}), site, opi)
        else:
            check_matching(kind, target, new_lines, new_colls, op["a"], op["b"], rows, site, opi,
                           list(op.get("labels") or ["dgm1", "dgm2"]))
        sched.note("op%d %s ok colls+%d lines+%d" % (opi, site, len(new_colls), len(new_lines)))
    plt.close("all")
    return {
        "evals": checked, "ops": len(case["ops"]),
        "key": hashlib.sha1(json.dumps(case["ops"], sort_keys=True).encode()).hexdigest()[:16],
        "nontrivial": K >= 2 and not_current >= 1,
        "probes": {"checked_calls": checked, "calls_on_non_current_axes": not_current,
                   "calls_reusing_the_callers_arrays": reused, "calls_reusing_a_labels_list": labels_reused[0]},
        "faults": {"env:" + k_: v for k_, v in env_fired.items()},
    }


def cleanup():
    try:
        plt_mod().close("all")
    except Exception:
        pass


def shrink_candidates(case):
    from sim import shrink as shr
    ops = case["ops"]
    for idx in shr.list_deletions(ops, min_len=1):
        c = copy.deepcopy(case)
        for i in reversed(idx):
            del c["ops"][i]
        yield c
    for i, o in enumerate(ops):
        if o.get("env") != "nothing":
            c = copy.deepcopy(case)
            c["ops"][i]["env"] = "nothing"
            yield c
        if o.get("opts"):
            for key in list(o["opts"]):
                c = copy.deepcopy(case)
                del c["ops"][i]["opts"][key]
                yield c
        if o.get("mode") not in (None, "insertion"):
            c = copy.deepcopy(case)
            c["ops"][i]["mode"] = "insertion"
            yield c
        if o.get("labels"):
            c = copy.deepcopy(case)
            del c["ops"][i]["labels"]
            yield c
        if o.get("pool_ids") is not None:
            c = copy.deepcopy(case)
            del c["ops"][i]["pool_ids"]
            yield c
        for key in ("a", "b"):
            if key in o:
                for idx in shr.list_deletions(o[key], min_len=0):
                    c = copy.deepcopy(case)
                    for q in reversed(idx):
                        del c["ops"][i][key][q]
                    yield c
        if "dgms" in o:
            for di, d in enumerate(o["dgms"]):
                if len(o["dgms"]) > 1 and "plot_only" not in (o.get("opts") or {}) and "labels" not in (o.get("opts") or {}):
                    c = copy.deepcopy(case)
                    del c["ops"][i]["dgms"][di]
                    yield c
                for idx in shr.list_deletions(d, min_len=1):
                    c = copy.deepcopy(case)
                    for q in reversed(idx):
                        del c["ops"][i]["dgms"][di][q]
                    yield c
    if case["inputs"]["clients"] > 2:
        c = copy.deepcopy(case)
        c["inputs"]["clients"] = 2
        c["ops"] = [dict(o, client=min(o["client"], 1)) for o in c["ops"]]
        yield c
    for i, o in enumerate(ops):
        for key in ("a", "b", "dgms"):
            if key in o:
                for path, v in shr._paths(o[key]):
                    if isinstance(v, list):
                        continue
                    for nv in shr.simpler_numbers(v):
                        c = copy.deepcopy(case)
                        shr._set(c["ops"][i][key], path, nv)
                        yield c
