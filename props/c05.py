"""C05 - mGH estimates always bracket the true modified Gromov-Hausdorff
distance, whatever the RNG draws and whatever mapping_sample_size_order."""
import copy
import hashlib
import json

from props import mgh_common as mg
from sim import simrandom
import numpy as np

from sim.sched import InvalidCase, Violation

ID = "C05"
NEEDS_ZYGOTE = True          # only used if a change makes gromov_hausdorff run joblib workers in processes
TITLE = "mGH estimates always bracket the true modified Gromov-Hausdorff distance"
CASE_TIMEOUT_S = 120.0
PLAN = {
    "quick": {"runs": 32000, "chunk": 100, "shrink_s": 30.0},
    "thorough": {"budget_s": 600.0, "chunk": 25, "shrink_s": 60.0},
}
RULE = ("case = pair of connected simple graphs (paths, cycles, stars, random trees, cliques minus edges, G(n,p) over a "
        "spanning tree, relabelled copies, copy + pendant vertex, copy with one edge toggled; 1..10 vertices with exact "
        "reference, 1 % up to 30 and 1 % up to 220 vertices with the size-free clauses only) x mapping_sample_size_order from a set including "
        "[0,0] (one mapping), the default and negative exponents; evaluated k=2..4 times, each with the NumPy global "
        "RNG seen by the heuristic replaced by a scheduler-owned generator (modes uniform / identity / reverse / "
        "constant / sticky) or the real MT19937 under a drawn seed. Oracle: exact 2*mGH by branch-and-bound over all "
        "maps in both directions (validated against flat enumeration when both graphs have <= 4 vertices). "
        "distinct_nontrivial = distinct (G,H) pairs, both with >= 3 vertices, not isomorphic-by-construction, for which "
        "the exact reference was available and >= 2 RNG schedules were evaluated.")
ASSUMPTIONS = [
    "any permutation / index is a legal output of the random generator",
    "exact reference limited by a node budget (about 9 vertices); beyond it only the size-free clauses are checked",
    "sampling, not proof",
]
REAL_COMPONENTS = ["persim.gromov_hausdorff (working tree)", "scipy.sparse.csgraph.shortest_path", "numpy",
                   "real MT19937 in rng mode 'real'"]
STUB_COMPONENTS = ["np.random as seen by persim.gromov_hausdorff -> SimRandom (all modes except 'real')"]


def reset_world():
    from sim import world
    world.reload_persim(("persim.gromov_hausdorff",))


def gen_case(rng, tier):
    r = rng.random()
    big = False
    if r < 0.3:
        max_n = 5
    elif r < 0.55:
        max_n = 7
    elif r < 0.97:
        max_n = 10          # sparse pairs of this size are where the curvature bound has to work
    elif r < (0.9985 if tier == "quick" else 0.995):
        max_n = 30
        big = True
    else:
        # beyond every exact oracle (size-free clauses only) and beyond int8 diameters / vertex counts;
        # rare because one such evaluation costs seconds
        max_n = rng.choice((70, 100, 128, 140) if tier == "quick" else (70, 100, 130, 160, 220))
        big = True
    G, H, iso = mg.gen_pair(rng, max_n)
    if rng.random() < 0.003:
        # diameters and vertex counts right at the integer-type boundaries, against a single vertex, for which
        # the distance is known at any size: 2 mGH(G, point) = diam G
        n = rng.choice((127, 128, 129, 130, 255, 256, 257, 258))
        e = [[i, i + 1] for i in range(n - 1)]
        if rng.random() < 0.5:
            e.append([n - 1, 0])                      # cycle: diameter n // 2
        G, H = {"n": n, "edges": e}, {"n": 1, "edges": []}
        if rng.random() < 0.5:
            G, H = H, G
        return {
            "inputs": {"G": G, "H": H, "iso": False, "mso": list(rng.choice(mg.MSO_CHOICES)),
                       "repG": {"fmt": rng.choice(("csr", "dense")), "fill": "upper", "dtype": "int"},
                       "repH": {"fmt": rng.choice(("csr", "dense")), "fill": "upper", "dtype": "int"}},
            "config": {"evals": [{"mode": rng.choice(simrandom.MODES), "k": rng.randrange(1000)}],
                       "use_default_mso": rng.random() < 0.3, "size_free_only": True},
            "ops": [],
        }
    wide = rng.random() < 0.004          # cheap (diameter 2..8) but beyond 127 equal distances per row
    if wide:
        max_n = rng.choice((129, 150, 200, 260))
        big = True
    if wide or (max_n > 30 and rng.random() < 0.6):
        # many vertices at one distance (stars, brooms, double stars), against a small or a large partner
        n = rng.randint(max(30, max_n - 40), max_n) if not wide else max_n
        kind = rng.choice(("star", "broom", "double-star"))
        if kind == "star":
            e = [[0, i] for i in range(1, n)]
        elif kind == "broom":
            h = rng.randint(2, 6)
            e = [[i, i + 1] for i in range(h)] + [[h, i] for i in range(h + 1, n)]
        else:
            m = n // 2
            e = [[0, 1]] + [[0, i] for i in range(2, m)] + [[1, i] for i in range(m, n)]
        G = {"n": n, "edges": e}
        if rng.random() < 0.6:
            if rng.random() < 0.5:          # a spider: three or four legs of equal length
                legs, ln = rng.choice((3, 4)), rng.choice((1, 2, 3))
                e2, nv = [], 1
                for _ in range(legs):
                    prev = 0
                    for _ in range(ln):
                        e2.append([prev, nv])
                        prev = nv
                        nv += 1
                H = {"n": nv, "edges": e2}
            else:
                H = mg.gen_graph(rng, rng.choice((5, 7, 9)))
        iso = False
        if rng.random() < 0.5:
            G, H = H, G
    k = rng.randint(2, 4) if max_n <= 30 else 1
    case_ = {
        "inputs": {"G": G, "H": H, "iso": iso, "mso": list(rng.choice(mg.MSO_CHOICES)),
                   "repG": {"fmt": rng.choice(("csr", "dense", "list", "csr", "dense", "list", "bsr", "lil", "dok", "coo")), "fill": rng.choice(mg.FILLS), "dtype": "int"},
                   "repH": {"fmt": rng.choice(("csr", "dense", "list", "csr", "dense", "list", "bsr", "lil", "dok", "coo")), "fill": rng.choice(mg.FILLS), "dtype": "int"}},
        "config": {"evals": [{"mode": rng.choice(simrandom.MODES), "k": rng.randrange(1000)} for _ in range(k)],
                   "use_default_mso": rng.random() < 0.3, "size_free_only": big},
        "ops": [],
    }
    if max(G["n"], H["n"]) <= 8 and rng.random() < 0.1:
        case_["config"]["concurrent"] = rng.randint(2, 3)
        case_["config"]["p_switch"] = rng.choice((2, 4, 8))
    return case_


def run_case(case, sched):
    with mg.parallel_world(sched, case):
        return _run_case(case, sched)


def _run_case(case, sched):
    inp, cfg = case["inputs"], case["config"]
    G, H = inp["G"], inp["H"]
    mg.check_graph_json(G)
    mg.check_graph_json(H)
    from models import ref_mgh
    if len(ref_mgh.components(G["n"], G["edges"])) != 1 or len(ref_mgh.components(H["n"], H["edges"])) != 1:
        raise InvalidCase("C05 is stated for connected graphs")
    mso = inp.get("mso")
    if not (isinstance(mso, list) and len(mso) == 2):
        raise InvalidCase("mso")
    AG, AH = mg.materialize(G, inp["repG"]), mg.materialize(H, inp["repH"])
    exact2 = None
    diam = None
    if not cfg.get("size_free_only"):
        exact2, dG, dH = mg.exact_double_mgh(G, H)
        diam = max(dG, dH)
    elif min(G["n"], H["n"]) == 1:
        # analytic reference at any size: every map of X onto a point has distortion diam X
        big_ = G if G["n"] > 1 else H
        dG = dH = 0
        exact2 = int(ref_mgh.distance_matrix(big_["n"], big_["edges"]).max()) if big_["n"] > 1 else 0
    # isomorphism is only asserted when it holds by construction *and* survived shrinking
    iso = bool(inp.get("iso")) and G["n"] == H["n"] and len(G["edges"]) == len(H["edges"]) and exact2 == 0
    evs = cfg.get("evals") or []
    if not evs:
        raise InvalidCase("no evaluation")
    loose_lb = loose_ub = 0
    results = []
    for i, e in enumerate(evs):
        if e.get("mode") not in simrandom.MODES:
            raise InvalidCase("rng mode")
        (lb, ub), _, draws = mg.call_gh(sched, (AG, AH), None if cfg.get("use_default_mso") else mso,
                                        e["mode"], int(e.get("k", 0)))
        sched.note("eval%d %s lb=%r ub=%r draws=%d" % (i, e["mode"], float(lb), float(ub), len(draws)))
        where = "(rng mode %s, %d draws, mapping_sample_size_order=%r)" % (
            e["mode"], len(draws), "default" if cfg.get("use_default_mso") else mso)
        mg.check_bracket(float(lb), float(ub), exact2, "gromov_hausdorff", iso, where)
        results.append((float(lb), float(ub), len(draws)))
        if exact2 is not None:
            loose_lb += float(lb) < 0.5 * exact2
            loose_ub += float(ub) > 0.5 * exact2
    # ---- concurrent callers: several threads of one process estimate at once; whichever way their draws from the
    # one global RNG interleave, every caller's pair of bounds must bracket the true distance
    nconc = cfg.get("concurrent")
    cstats = {}
    if nconc:
        if not isinstance(nconc, int) or not 2 <= nconc <= 4 or max(G["n"], H["n"]) > 12:
            raise InvalidCase("concurrent")
        import warnings
        from sim import callers
        gh = mg.sut()
        kw_ = {} if cfg.get("use_default_mso") else {"mapping_sample_size_order": np.array(mso, dtype=float)}
        cargs = [(mg.materialize(G, inp["repG"]), mg.materialize(H, inp["repH"])) for _ in range(nconc)]
        e0 = evs[0]
        with simrandom.rng_scope(sched, e0["mode"], int(e0.get("k", 0))):
            with warnings.catch_warnings(record=True):
                warnings.simplefilter("always")
                outs = callers.run_concurrent(sched, [(lambda a=a: gh(*a, **kw_)) for a in cargs],
                                              int(cfg.get("p_switch", 4)), cstats)
        for ci, (st_, v_) in enumerate(outs):
            if st_ != "ok":
                raise Violation("no-exception", "gromov_hausdorff(concurrent)", type(v_).__name__,
                                "caller #%d of %d concurrent callers: gromov_hausdorff raised %s: %s" % (ci, nconc, type(v_).__name__, str(v_)[:300]))
            mg.check_bracket(float(v_[0]), float(v_[1]), exact2, "gromov_hausdorff(concurrent)", iso,
                             "(caller #%d of %d concurrent callers sharing the global RNG, mode %s)" % (ci, nconc, e0["mode"]))
    trivial2 = None
    if exact2 is not None:
        trivial2 = max(abs(dG - dH), int(G["n"] != H["n"]))
    return {
        "evals": len(evs),
        "key": hashlib.sha1(json.dumps([G, H]).encode()).hexdigest()[:16],
        "nontrivial": exact2 is not None and G["n"] >= 3 and H["n"] >= 3 and not inp.get("iso") and len(evs) >= 2,
        "probes": {
            "lower_bound_beat_trivial_bound": int(trivial2 is not None and 2 * results[0][0] > trivial2),
            "lower_bound_loose": int(loose_lb > 0), "upper_bound_loose": int(loose_ub > 0),
            "upper_bound_varied_with_draws": int(len({r[1] for r in results}) > 1),
            "draw_count_varied_with_draws": int(len({r[2] for r in results}) > 1),
            "isomorphic_pair": int(iso), "exact_reference_available": int(exact2 is not None),
            "reference_over_budget": int(exact2 is None and not cfg.get("size_free_only")),
            "single_mapping_sampled": int(mso == [0.0, 0.0] and not cfg.get("use_default_mso")),
            "true_distance_positive": int(bool(exact2)), "vertices_ge_8": int(max(G["n"], H["n"]) >= 8),
        },
        "faults": {"concurrent_batches": cstats.get("concurrent_batches", 0), "thread_switches": cstats.get("thread_switches", 0),
                   "thread_preemption_points": cstats.get("preemption_points", 0)},
    }


def shrink_candidates(case):
    from sim import shrink as shr
    if case["config"].get("concurrent"):
        c = copy.deepcopy(case)
        del c["config"]["concurrent"]
        yield c
    evs = case["config"]["evals"]
    for idx in shr.list_deletions(evs, min_len=1):
        c = copy.deepcopy(case)
        for i in reversed(idx):
            del c["config"]["evals"][i]
        yield c
    for i, e in enumerate(evs):
        if e["mode"] != "identity":
            c = copy.deepcopy(case)
            c["config"]["evals"][i] = {"mode": "identity", "k": 0}
            yield c
    for name in ("G", "H"):
        g = case["inputs"][name]
        # drop a vertex (highest label), keeping the graph connected is checked by run_case
        if g["n"] > 1:
            for v in range(g["n"] - 1, -1, -1):
                c = copy.deepcopy(case)
                ren = {u: (u if u < v else u - 1) for u in range(g["n"]) if u != v}
                c["inputs"][name] = {"n": g["n"] - 1,
                                     "edges": [[ren[a], ren[b]] for a, b in g["edges"] if a != v and b != v]}
                yield c
        for i in range(len(g["edges"])):
            c = copy.deepcopy(case)
            del c["inputs"][name]["edges"][i]
            yield c
    for rep in ("repG", "repH"):
        if case["inputs"][rep]["fmt"] != "dense":
            c = copy.deepcopy(case)
            c["inputs"][rep]["fmt"] = "dense"
            yield c
    if case["inputs"]["mso"] != [0.0, 0.0]:
        c = copy.deepcopy(case)
        c["inputs"]["mso"] = [0.0, 0.0]
        c["config"]["use_default_mso"] = False
        yield c
