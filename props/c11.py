"""C11 - persistence images are additive, order-free and call-style independent,
for every n_jobs / worker schedule (SimParallel: isolated forked workers,
cooperative threads, line-preemptive baton threads)."""
import copy
import hashlib
import json
import random
import sys

import numpy as np

from props import imgcommon as ic
from sim import simparallel
from sim.sched import InvalidCase, Violation

ID = "C11"
TITLE = "Persistence images are additive, order-free and call-style independent"
CASE_TIMEOUT_S = 120.0
NEEDS_ZYGOTE = True
PLAN = {
    "quick": {"runs": 9600, "chunk": 20, "shrink_s": 40.0},
    "thorough": {"budget_s": 600.0, "chunk": 20, "shrink_s": 90.0},
}
MODES = ("proc", "thread-coop", "thread-preempt", "thread-preempt")
RULE = ("case = imager configuration (ranges, pixel size, kernel in isotropic scalar/matrix, diagonal, correlated, "
        "high-correlation Gaussian, uniform, user callable; weight in persistence n=1/2, linear_ramp, ramp with zero "
        "weights, user function, lambda) + 1..8 birth-death diagrams (empty ones, points inside / on borders / outside "
        "the region, zero-persistence and repeated points) + a call plan of 3..10 calls: the same diagrams transformed "
        "alone, inside collections with n_jobs in {None,1,2,3,-1,16}, permuted, as unions, with zero-weight points "
        "added, pre-converted with skew=False, via fit_transform on a twin. All parallel calls run under SimParallel in "
        "one of the modes proc / thread-coop / thread-preempt with scheduler-decided dispatch, completion and line-level "
        "preemption; workers persist across the calls of a plan. distinct_nontrivial = distinct (config, diagrams, plan) "
        "with >= 2 non-empty diagrams and >= 1 parallel call with n_jobs >= 2 over >= 2 diagrams.")
ASSUMPTIONS = [
    "legal deployments: joblib's process backends (arguments pickled into isolated, reused workers) and the threading "
    "backend (shared memory, any interleaving at line granularity)",
    "image equality: rel 1e-10 + abs 1e-13*total weight; additivity rel 1e-9; non-negativity / mass clauses use abs "
    "1e-7*total weight for correlated Gaussian kernels (quadrature error of the kernel CDF) and 1e-12 otherwise",
    "sampling, not proof",
]
REAL_COMPONENTS = ["persim.images.PersistenceImager.transform / fit_transform / _transform (working tree)",
                   "joblib.delayed", "n_jobs=None and n_jobs=1 paths (no stub at all)",
                   "pickle boundary (cloudpickle, as loky) and real forked processes in proc mode",
                   "real threads in thread-preempt mode (only the choice of who runs is simulated)"]
STUB_COMPONENTS = ["joblib.Parallel as seen by persim.images -> SimParallel (dispatch / completion / preemption decided "
                   "by the scheduler)"]
NJOBS = (None, 1, 2, 2, 3, -1, 16)


def reset_world():
    from sim import world
    world.reload_persim(("persim.images_kernels", "persim.images_weights", "persim.images"))


def gen_case(rng, tier):
    cfg = ic.gen_config(rng, exotic=True)
    if "unit" not in cfg and rng.random() < 0.12:
        cfg.update(defaults=True, kernel="iso-matrix", var=1.0, weight="persistence")
    nd = rng.randint(1, 8)
    dgms = [ic.gen_bd_diagram(rng, cfg) for _ in range(nd)]
    ops = []
    for _ in range(rng.randint(3, 10 if tier == "quick" else 24)):
        kind = rng.choice(("collection", "collection", "collection", "single", "permuted", "union", "zero-added",
                           "preconverted", "fit_transform", "empty-in-collection", "single-in-list"))
        op = {"op": kind, "skew": True}
        if rng.random() < 0.15:
            op["flag"] = rng.choice(("np.bool_", "int"))          # the skew flag as a NumPy bool / as 1 or 0
        if kind in ("collection", "empty-in-collection"):
            k = rng.randint(1, nd)
            op["ds"] = [rng.randrange(nd) for _ in range(k)]
            op["n_jobs"] = rng.choice(NJOBS)
            op["container"] = rng.choice(("list", "list", "tuple"))
            op["form"] = rng.choice(("f64", "f64", "f64", "lists", "i64", "stack3d", "view", "f32", "f16"))
            if kind == "empty-in-collection":
                op["empty_at"] = rng.randrange(k + 1)
        elif kind == "union":
            op["ds"] = [rng.randrange(nd) for _ in range(rng.randint(2, 3))]
            op["n_jobs"] = rng.choice((None, None, 2))
        elif kind == "fit_transform":
            op["ds"] = [rng.randrange(nd) for _ in range(rng.randint(1, 3))]
        else:
            op["d"] = rng.randrange(nd)
            op["seed"] = rng.randrange(10 ** 6)
            op["n_jobs"] = rng.choice((None, None, 2, 3))
        ops.append(op)
    # another party of the process builds a default imager of its own and edits *its* parameter dicts in place
    for _ in range(rng.randint(0, 2)):
        ops.insert(rng.randrange(len(ops) + 1), {"op": "other-edit", "what": rng.choice(("kernel", "weight", "both")),
                                                 "val": rng.choice((0.05, 2.0, 0.5))})
    # the user re-assigns the imager's weight / kernel (function and parameters) on the live object, as the
    # documentation's notebook does; every later call of the plan is held to the new configuration
    if rng.random() < 0.3:
        upd = {}
        what = rng.choice((["kernel"], ["weight"], ["kernel", "weight"]))
        if "kernel" in what:
            upd.update(kernel=rng.choice(ic.KERNELS), var=rng.choice((1.0, 0.05, 0.3, 4.0)) * (cfg.get("unit", 1.0) ** 2))
        if "weight" in what:
            upd.update(weight=rng.choice(ic.WEIGHTS))
        ops.insert(rng.randrange(len(ops) + 1), {"op": "reassign", "what": what, "update": upd})
    # a second imager of the *same resolution* on a shifted / rescaled region, used in the same plan
    # (and therefore by the same reused workers)
    cfg2 = dict(cfg)
    if rng.random() < 0.5:
        sh = rng.choice((0.37, -0.5, 1.0)) * cfg["pixel_size"]
        cfg2["birth_range"] = [cfg["birth_range"][0] + sh, cfg["birth_range"][1] + sh]
    else:
        f = rng.choice((2.0, 0.5))
        cfg2["pixel_size"] = cfg["pixel_size"] * f
        cfg2["birth_range"] = [cfg["birth_range"][0], cfg["birth_range"][0] + (cfg["birth_range"][1] - cfg["birth_range"][0]) * f]
        cfg2["pers_range"] = [cfg["pers_range"][0], cfg["pers_range"][0] + (cfg["pers_range"][1] - cfg["pers_range"][0]) * f]
    for _ in range(rng.randint(0, 3)):
        k = rng.randint(1, nd)
        ops.insert(rng.randrange(len(ops) + 1), {"op": "collection", "skew": True, "imager": 2,
                                                 "ds": [rng.randrange(nd) for _ in range(k)],
                                                 "n_jobs": rng.choice((None, 2, 2, 3)), "container": "list"})
    return {"inputs": {"cfg": cfg, "cfg2": cfg2, "dgms": dgms}, "ops": ops,
            "config": {"parallel_mode": rng.choice(MODES), "p_switch": rng.choice((3, 8, 30))}}


def api_digest(obj):
    from props import c19_api
    return c19_api.digest_args(obj)


def _close(a, b, scale, rel=1e-10):
    a, b = np.asarray(a, float), np.asarray(b, float)
    if a.shape != b.shape:
        return False
    if np.array_equal(a, b, equal_nan=True):        # bit-identical, including identical non-finite entries
        return True
    return bool(np.all(np.abs(a - b) <= rel * np.abs(b).max(initial=0.0) + 1e-13 * scale + rel * np.abs(b)))


def run_case(case, sched):
    inp, cfg_run = case["inputs"], case["config"]
    cfg = inp["cfg"]
    ic.check_config(cfg)
    dg_json = inp["dgms"]
    if not dg_json:
        raise InvalidCase("no diagrams")
    for d in dg_json:
        ic.check_bd(d)
        if any(q[1] == float("inf") for q in d):
            raise InvalidCase("C11's domain is finite diagrams (the imager does not define images of essential classes)")
    mode = cfg_run.get("parallel_mode", "proc")
    if mode not in ("proc", "thread-coop", "thread-preempt"):
        raise InvalidCase("mode")
    world = simparallel.World(sched, mode, int(cfg_run.get("p_switch", 8)))
    simparallel.install(world)
    try:
        return _run(case, sched, world, cfg, dg_json)
    finally:
        simparallel.uninstall()


def _builtin(name_or_fn, modname):
    """The callable persim resolves a built-in name to (a user assigns functions, not names, on a live imager)."""
    import sys
    if callable(name_or_fn):
        return name_or_fn
    return getattr(sys.modules[modname], name_or_fn)


def _run(case, sched, world, cfg, dg_json, im=None, ops=None, opi0=0):
    if im is None:
        im = ic.make_imager(cfg)
    ops_list = case["ops"] if ops is None else ops
    res = tuple(im.resolution)
    D = [ic.arr(d) for d in dg_json]
    master = [d.copy() for d in D]
    BP = [np.column_stack([d[:, 0], d[:, 1] - d[:, 0]]) if len(d) else np.zeros((0, 2)) for d in D]
    W = [ic.weights_at(cfg, bp) if len(bp) else np.zeros(0) for bp in BP]
    nonneg = all((w >= 0).all() for w in W)
    totw = max([float(np.abs(w).sum()) for w in W] + [1e-300])
    corr = cfg["kernel"] in ("corr", "corr-high")
    abs_tol = (1e-7 if corr else 1e-12) * totw
    state0 = json.dumps(ic.imager_state(im), sort_keys=True)
    cfg2 = case["inputs"].get("cfg2")
    im2 = None
    base2 = None
    if cfg2 is not None and any(o.get("imager") == 2 for o in ops_list):
        ic.check_config(cfg2)
        im2 = ic.make_imager(cfg2)
    evals = 0
    par_calls = 0

    def call(site, fn, *a, **k):
        nonlocal evals
        evals += 1
        try:
            out = fn(*a, **k)
        except (Violation, InvalidCase):
            raise
        except simparallel.WorkerError as e:
            raise Violation("parallel==serial", site, "worker-raised:" + e.tname, str(e)[:500])
        except Exception as e:
            raise Violation("no-exception", site, type(e).__name__, "%s raised %s: %s" % (site, type(e).__name__, str(e)[:300]))
        return out

    def untouched(site, opi):
        for i, (d, m) in enumerate(zip(D, master)):
            if d.shape != m.shape or d.tobytes() != m.tobytes():
                raise Violation("inputs-untouched", site, "diagram-modified",
                                "caller's diagram %d was modified by the call: now %r, was %r" % (i, d.tolist(), m.tolist()), opi)
        if json.dumps(ic.imager_state(im), sort_keys=True) != state0:
            raise Violation("imager-state-untouched", site, "state-modified", "public state of the imager changed across transform", opi)

    # baseline: every diagram alone, serial
    base = []
    for i, d in enumerate(D):
        img = np.asarray(call("transform(single)", im.transform, d, skew=True), float)
        untouched("transform(single)", None)
        if img.shape != res:
            raise Violation("image-shape==resolution", "transform(single)", "empty" if len(d) == 0 else "nonempty",
                            "image shape %r, resolution %r (diagram %d with %d points)" % (img.shape, res, i, len(d)))
        if len(d) == 0 and np.any(img != 0):
            raise Violation("empty=>zero-image", "transform(single)", "nonzero", "empty diagram gave a non-zero image")
        if nonneg:
            if not np.isfinite(img).all():
                raise Violation("pixel-total<=total-weight", "transform(single)", "non-finite/" + cfg["kernel"],
                                "image of diagram %d contains non-finite pixels (kernel %s): neither non-negative nor "
                                "bounded by the total weight %r" % (i, cfg["kernel"], float(W[i].sum())))
            if img.min(initial=0.0) < -abs_tol:
                raise Violation("non-negative-pixels", "transform(single)", cfg["kernel"],
                                "pixel %r < 0 with non-negative weights (kernel %s)" % (float(img.min()), cfg["kernel"]))
            if img.sum() > float(W[i].sum()) * (1 + 1e-9) + abs_tol * max(1, len(d)):
                raise Violation("pixel-total<=total-weight", "transform(single)", cfg["kernel"],
                                "pixel total %r exceeds total weight %r" % (float(img.sum()), float(W[i].sum())))
        base.append(img)
        sched.note("base%d %s" % (i, hashlib.sha1(np.round(img, 12).tobytes()).hexdigest()[:12]))

    if im2 is not None:
        base2 = [np.asarray(call("transform(single)", im2.transform, d, skew=True), float) for d in D]
    for opi_local, op in enumerate(ops_list):
        opi = opi0 + opi_local
        kind = op.get("op")
        nj = op.get("n_jobs")
        if kind == "other-edit":
            import sys as _sys
            other_ = _sys.modules["persim.images"].PersistenceImager(pixel_size=0.5)
            if op.get("what") in ("kernel", "both"):
                other_.kernel_params["sigma"] = float(op.get("val", 0.5))
            if op.get("what") in ("weight", "both"):
                other_.weight_params["n"] = float(op.get("val", 2.0))
            sched.note("op%d another party edited its own default imager" % opi)
            continue
        if kind == "reassign":
            what, upd = op.get("what") or [], op.get("update") or {}
            if not set(what) <= {"kernel", "weight"} or not what or not set(upd) <= {"kernel", "weight", "var"}:
                raise InvalidCase("reassign")
            cfgn = dict(cfg)
            cfgn.update(upd)
            cfgn.pop("defaults", None)          # from here on the configuration is spelled out
            ic.check_config(cfgn)
            if "weight" in what:
                w_, wp_ = ic.weight_of(cfgn)
                im.weight = _builtin(w_, "persim.images_weights")
                im.weight_params = wp_
            if "kernel" in what:
                k_, kp_ = ic.kernel_of(cfgn)
                im.kernel = _builtin(k_, "persim.images_kernels")
                im.kernel_params = kp_
            sched.note("op%d reassign %s -> %s" % (opi, what, json.dumps(upd, sort_keys=True)))
            # everything after the re-assignment is a plan of its own for the same live object
            tail = _run(case, sched, world, cfgn, dg_json, im=im, ops=ops_list[opi_local + 1:], opi0=opi + 1)
            tail["evals"] += evals
            tail["probes"]["plans_with_reassigned_weight_or_kernel"] = 1
            tail["nontrivial"] = tail["nontrivial"] or (sum(1 for d in D if len(d)) >= 2 and par_calls >= 1)
            return tail
        use2 = op.get("imager") == 2 and im2 is not None and kind == "collection"
        imx, basex = (im2, base2) if use2 else (im, base)
        resx = tuple(imx.resolution)
        if nj is not None and (not isinstance(nj, int) or nj == 0):
            raise InvalidCase("n_jobs")
        site = "transform(%s,n_jobs=%s)" % (kind, "None" if nj is None else ("1" if nj == 1 else ">=2"))
        fl = op.get("flag")
        if fl not in (None, "np.bool_", "int"):
            raise InvalidCase("flag")
        T_ = True if fl is None else (np.bool_(True) if fl == "np.bool_" else 1)
        F_ = False if fl is None else (np.bool_(False) if fl == "np.bool_" else 0)
        if kind in ("collection", "empty-in-collection", "single-in-list"):
            ids = op.get("ds") if kind != "single-in-list" else [op.get("d")]
            if not ids or any(not isinstance(i, int) or not 0 <= i < len(D) for i in ids):
                raise InvalidCase("ids")
            coll = [D[i] for i in ids]
            want = [basex[i] for i in ids]
            if kind == "empty-in-collection":
                at = min(int(op.get("empty_at", 0)), len(coll))
                coll.insert(at, np.zeros((0, 2)))
                want.insert(at, np.zeros(resx))
            form = op.get("form", "f64")
            handed = None
            if form == "lists":
                coll = [c_.tolist() if len(c_) else c_ for c_ in coll]           # nested lists (empty stays an array)
            elif form == "i64" and all(len(c_) and np.all(c_ == np.round(c_)) for c_ in coll):
                coll = [c_.astype(np.int64) for c_ in coll]
            elif form == "view":
                wide = [np.full((len(c_), 4), 99.0) for c_ in coll]
                for w_, c_ in zip(wide, coll):
                    w_[:, 0:3:2] = c_
                coll = [w_[:, 0:3:2] for w_ in wide]                              # non-contiguous views
            elif form == "stack3d" and len(coll) >= 2 and len({len(c_) for c_ in coll}) == 1 and len(coll[0]) > 0:
                coll = np.stack(coll)                                             # one 3-D array of diagrams
            elif form in ("f32", "f16") and not use2 and "unit" not in cfg and abs(cfg["birth_range"][1]) < 100:
                # narrow floats: the diagrams *are* the rounded values; the reference is the serial transform of
                # each element in the very same form (call-style independence, not a comparison across dtypes)
                dt = np.float32 if form == "f32" else np.float16
                coll = [c_.astype(dt) for c_ in coll]
                if all(np.isfinite(c_).all() and (len(c_) == 0 or np.all(c_[:, 1] >= c_[:, 0])) for c_ in coll):
                    want = [np.asarray(call(site, im.transform, c_, skew=T_), float) if len(c_) else np.zeros(resx)
                            for c_ in coll]
                else:
                    coll = [c_.astype(np.float64) for c_ in [D[i] for i in ids]]
            if form != "f64":
                handed = api_digest(coll)
            if op.get("container") == "tuple" and not isinstance(coll, np.ndarray):
                coll = tuple(coll)
            if use2:
                site = site + "[second-imager-same-resolution]"
            out = call(site, imx.transform, coll, skew=T_, n_jobs=nj)
            if nj is not None and nj != 1 and len(coll) > 1:
                par_calls += 1
            if not isinstance(out, (list, tuple)) and not (isinstance(out, np.ndarray) and out.ndim == 3):
                out = list(out) if hasattr(out, "__iter__") and not isinstance(out, np.ndarray) else out
            if handed is not None and api_digest(list(coll) if isinstance(coll, tuple) else coll) != handed:
                raise Violation("inputs-untouched", site, "diagram-modified/" + form,
                                "the collection handed over as %s was modified by the call" % form, opi)
            if isinstance(out, np.ndarray) and out.ndim == 2:
                raise Violation("collection=>one-image-per-diagram", site, "single-image",
                                "a collection of %d diagrams returned one image" % len(coll), opi)
            if len(out) != len(want):
                raise Violation("collection=>one-image-per-diagram", site, "count",
                                "%d diagrams in, %d images out" % (len(want), len(out)), opi)
            for k, (o, w_) in enumerate(zip(out, want)):
                if not _close(o, w_, totw):
                    # attribute: does it equal some *other* diagram's image (ordering) or none?
                    o_ = np.asarray(o, float)
                    other = [j for j, wj in enumerate(want) if j != k and _close(o_, wj, totw)]
                    discr = "order" if other else "value"
                    raise Violation("call-style-independent", site, discr,
                                    "image #%d of the collection differs from the image of that diagram alone "
                                    "(max abs diff %.3g)%s; mode=%s" % (
                                        k, float(np.abs(o_ - w_).max()) if o_.shape == w_.shape else float("nan"),
                                        "; it equals the image of diagram #%r" % other if other else "", world.mode), opi)
        elif kind == "single":
            i = op.get("d")
            if not isinstance(i, int) or not 0 <= i < len(D):
                raise InvalidCase("d")
            out = call(site, im.transform, D[i], skew=T_, n_jobs=nj)
            if not _close(out, base[i], totw):
                raise Violation("repeatable", site, "differs", "same diagram transformed again gives a different image", opi)
        elif kind == "permuted":
            i = op.get("d")
            if not isinstance(i, int) or not 0 <= i < len(D):
                raise InvalidCase("d")
            r = random.Random(op.get("seed", 0))
            idx = list(range(len(D[i])))
            r.shuffle(idx)
            out = call(site, im.transform, D[i][idx] if len(idx) else D[i], skew=T_, n_jobs=nj)
            if not _close(out, base[i], totw, rel=1e-9):
                raise Violation("order-of-points-irrelevant", site, "differs", "permuted diagram gives a different image", opi)
        elif kind == "union":
            ids = op.get("ds")
            if not ids or any(not isinstance(i, int) or not 0 <= i < len(D) for i in ids):
                raise InvalidCase("ids")
            U = np.vstack([D[i] for i in ids])
            want = sum(base[i] for i in ids)
            if len(U) == 0:
                continue
            if nj is None:
                out = call(site, im.transform, U, skew=T_)
            else:
                out = call(site, im.transform, [U, D[ids[0]]], skew=T_, n_jobs=nj)[0]
                par_calls += 1
            if not _close(out, want, totw * len(ids), rel=1e-9):
                raise Violation("image-of-union==sum-of-images", site, "differs",
                                "max abs diff %.3g for the union of diagrams %r" % (float(np.abs(np.asarray(out) - want).max()), ids), opi)
        elif kind == "zero-added":
            i = op.get("d")
            if not isinstance(i, int) or not 0 <= i < len(D):
                raise InvalidCase("d")
            # points whose weight is exactly zero under the configured weight
            cand = np.array([[0.3, 0.3], [im.birth_range[0] + 0.1, im.birth_range[0] + 0.1]])
            wz = ic.weights_at(cfg, np.column_stack([cand[:, 0], cand[:, 1] - cand[:, 0]]))
            if not np.all(wz == 0):
                continue
            out = call(site, im.transform, np.vstack([D[i], cand]), skew=T_, n_jobs=nj)
            if not _close(out, base[i], totw, rel=1e-9):
                raise Violation("zero-weight-points-contribute-nothing", site, "differs", "adding zero-weight points changed the image", opi)
        elif kind == "preconverted":
            i = op.get("d")
            if not isinstance(i, int) or not 0 <= i < len(D):
                raise InvalidCase("d")
            bp = BP[i].copy()
            keep = bp.copy()
            out = call(site, im.transform, bp, skew=F_, n_jobs=nj)
            if bp.tobytes() != keep.tobytes():
                raise Violation("inputs-untouched", site, "diagram-modified", "pre-converted diagram modified", opi)
            if not _close(out, base[i], totw, rel=1e-9):
                raise Violation("skew-consistent", site, "differs",
                                "birth-persistence input with skew=F_ differs from birth-death input with skew=T_", opi)
        elif kind == "fit_transform":
            ids = op.get("ds")
            if not ids or any(not isinstance(i, int) or not 0 <= i < len(D) for i in ids):
                raise InvalidCase("ids")
            coll = [D[i] for i in ids if len(D[i])]
            if not coll or any(np.isinf(c_).any() for c_ in coll):
                continue                    # fitting ranges to an infinite persistence is outside any domain
            allbp = np.vstack([BP[i] for i in ids if len(D[i])])
            if not (np.ptp(allbp[:, 0]) > 0 and np.ptp(allbp[:, 1]) > 0):
                continue
            if max(np.ptp(allbp[:, 0]), np.ptp(allbp[:, 1])) / float(cfg["pixel_size"]) > 60:
                continue        # far-outside points would make the fitted image enormous
            twin = ic.make_imager(cfg)
            out = call("fit_transform", twin.fit_transform, coll, skew=T_)
            twin2 = ic.make_imager(cfg)
            call("fit", twin2.fit, coll, skew=T_)
            want = call("transform(after-fit)", twin2.transform, coll, skew=T_)
            for k, (o, w_) in enumerate(zip(out, want)):
                if not _close(o, w_, totw):
                    raise Violation("call-style-independent", "fit_transform", "value",
                                    "fit_transform image #%d differs from fit-then-transform" % k, opi)
        else:
            raise InvalidCase("op")
        untouched(site, opi)
        sched.note("op%d %s ok" % (opi, kind))
    nonempty = sum(1 for d in D if len(d))
    st = world.stats
    return {
        "evals": evals, "ops": len(case["ops"]),
        "key": hashlib.sha1(json.dumps([cfg, dg_json, case["ops"]], sort_keys=True).encode()).hexdigest()[:16],
        "nontrivial": nonempty >= 2 and par_calls >= 1,
        "probes": {"mode:" + world.mode: 1, "kernel:" + cfg["kernel"]: 1, "weight:" + cfg["weight"]: 1,
                   "nonneg_weights": int(nonneg), "plans_with_worker_reuse": int(st["worker_reuse"] > 0),
                   "plans_with_second_imager": int(im2 is not None)},
        "faults": dict(st),
    }


def shrink_candidates(case):
    from sim import shrink as shr
    ops = case["ops"]
    for idx in shr.list_deletions(ops, min_len=0):
        c = copy.deepcopy(case)
        for i in reversed(idx):
            del c["ops"][i]
        yield c
    for m in ("thread-coop",):
        if case["config"]["parallel_mode"] != m:
            c = copy.deepcopy(case)
            c["config"]["parallel_mode"] = m
            yield c
    # simpler configuration
    cfg = case["inputs"]["cfg"]
    for key, val in (("kernel", "iso-scalar"), ("weight", "persistence"), ("var", 1.0)):
        if cfg[key] != val:
            c = copy.deepcopy(case)
            c["inputs"]["cfg"][key] = val
            yield c
    # drop points from diagrams (never drop diagrams: op indices refer to them)
    for i, d in enumerate(case["inputs"]["dgms"]):
        for idx in shr.list_deletions(d, min_len=0):
            c = copy.deepcopy(case)
            for j in reversed(idx):
                del c["inputs"]["dgms"][i][j]
            yield c
    for i, o in enumerate(ops):
        if o.get("ds") and len(o["ds"]) > 1:
            for j in range(len(o["ds"])):
                c = copy.deepcopy(case)
                del c["ops"][i]["ds"][j]
                yield c
        if o.get("n_jobs") not in (None, 2):
            c = copy.deepcopy(case)
            c["ops"][i]["n_jobs"] = 2
            yield c
    for i, d in enumerate(case["inputs"]["dgms"]):
        for j, q in enumerate(d):
            for k in (0, 1):
                for nv in shr.simpler_numbers(q[k]):
                    c = copy.deepcopy(case)
                    c["inputs"]["dgms"][i][j][k] = nv
                    yield c


def cleanup():
    simparallel.uninstall()


def extra_phase(ctx):
    """Real joblib control (not simulated): one loky and one threading run of a fixed plan, compared with the
    serial result.  Validates that the seam models the component it replaces; a disagreement here is a real
    execution violating the property and is reported with the plan as (unshrunk) replay."""
    import sys
    import time
    import joblib
    import persim  # noqa: F401
    from sim import simparallel as sp
    t0 = time.time()
    mod = sys.modules["persim.images"]
    real = getattr(mod, "_verif_real_Parallel", None) or mod.Parallel
    if real is sp.SimParallel:
        return {"real_joblib_control": "skipped: seam still installed"}, [], []
    cfg = {"birth_range": [0.0, 2.0], "pers_range": [0.0, 2.0], "pixel_size": 0.25, "kernel": "corr", "weight": "persistence",
           "var": 0.3, "rho": 0.5}
    rng = np.random.RandomState(ctx["seed"] % (2 ** 31))
    dgms = []
    for _ in range(6):
        b = rng.rand(rng.randint(1, 40)) * 2
        dgms.append(np.column_stack([b, b + rng.rand(len(b))]))
    viols, info = [], {}
    try:
        im = ic.make_imager(cfg)
        serial = im.transform(dgms, skew=True)
        for backend in ("loky", "threading"):
            if ctx["tier"] == "quick" and backend == "loky":
                info[backend] = "thorough tier only (3 s worker start-up)"
                continue
            with joblib.parallel_config(backend=backend):
                out = im.transform(dgms, skew=True, n_jobs=2)
            ok = len(out) == len(serial) and all(_close(o, s_, float(np.abs(s_).sum()) + 1.0) for o, s_ in zip(out, serial))
            info[backend] = "agrees with serial" if ok else "DISAGREES with serial"
            if not ok:
                viols.append({"format": 1, "property": ID, "no_shrink": True, "origin": {"verif_seed": ctx["seed"], "run_index": -1, "tier": ctx["tier"]},
                              "inputs": {"cfg": cfg, "dgms": [d.tolist() for d in dgms]}, "ops": [], "config": {"real_joblib_backend": backend},
                              "violation": {"clause": "parallel==serial", "signature": ["transform(real joblib %s)" % backend, "call-style-independent", "value"],
                                            "detail": "real joblib backend %s, n_jobs=2: images differ from the serial result" % backend, "op_index": None}})
    except Exception as e:
        info["error"] = "%s: %s" % (type(e).__name__, str(e)[:200])
        viols.append({"format": 1, "property": ID, "no_shrink": True, "origin": {"verif_seed": ctx["seed"], "run_index": -1, "tier": ctx["tier"]},
                      "inputs": {"cfg": cfg}, "ops": [], "config": {},
                      "violation": {"clause": "no-exception", "signature": ["transform(real joblib)", "no-exception", type(e).__name__],
                                    "detail": "real joblib control raised %s: %s" % (type(e).__name__, str(e)[:300]), "op_index": None}})
    info["wall_s"] = round(time.time() - t0, 1)
    return {"real_joblib_control": info}, viols, []


def replay_case(case):
    """Replay files of the real-joblib control are re-executed with real joblib; all others normally."""
    from sim import runner
    from sim.sched import Sched
    backend = (case.get("config") or {}).get("real_joblib_backend")
    if not backend:
        return runner.execute(sys.modules[__name__], case, log_on=True)
    import joblib
    sched = Sched(0, tape=[])
    im = ic.make_imager(case["inputs"]["cfg"])
    dgms = [np.array(d, dtype=float).reshape(-1, 2) for d in case["inputs"]["dgms"]]
    serial = im.transform(dgms, skew=True)
    with joblib.parallel_config(backend=backend):
        out = im.transform(dgms, skew=True, n_jobs=2)
    ok = len(out) == len(serial) and all(_close(o, s_, float(np.abs(s_).sum()) + 1.0) for o, s_ in zip(out, serial))
    if ok:
        return {"status": "ok", "stats": {}, "sched": sched}
    v = Violation("parallel==serial", "transform(real joblib %s)" % backend, "value", "images differ from the serial result")
    return {"status": "violation", "violation": v.to_json(), "sched": sched}
