"""C18 - transformers: fit+transform == fit_transform, transform is repeatable and
leaves the fitted state alone, collections map element-wise in order, and a
refit forgets the past.

Histories over several PersistenceImager and PersistenceLandscaper instances
interleaved by the scheduler; reference = a *fresh twin* (same user-fixed
constructor parameters, fitted once on the latest data only).  Imager collection
transforms with n_jobs run under SimParallel."""
import contextlib
import copy
import hashlib
import io
import json
import sys

import numpy as np

from props import imgcommon as ic
from sim import simparallel
from sim.sched import InvalidCase, Violation

ID = "C18"
TITLE = "Transformers: fit+transform == fit_transform, and refits forget the past"
CASE_TIMEOUT_S = 120.0
NEEDS_ZYGOTE = True
PLAN = {
    "quick": {"runs": 3200, "chunk": 20, "shrink_s": 40.0},
    "thorough": {"budget_s": 600.0, "chunk": 20, "shrink_s": 90.0},
}
RULE = ("case = history of 2..14 operations over K=1..4 estimators (PersistenceImager with user-fixed ranges / pixel size / "
        "kernel / weight; PersistenceLandscaper with any subset of start / stop fixed, num_steps, hom_deg, flatten) "
        "interleaved by the scheduler: fit(X_j), transform(X_j) (imager: also with n_jobs under SimParallel), "
        "fit_transform(X_j), repeated transform, refit on shifted / scaled / disjoint data from a pool of 2..4 data sets. "
        "After every fit the instance must equal a fresh twin fitted once on that data (public state and outputs); "
        "fit;transform == fit_transform; transform twice identical and state/input untouched; collection output k is the "
        "image of diagram k. distinct_nontrivial = distinct histories containing a refit on different data or a "
        "parallel collection transform, with >= 4 operations.")
ASSUMPTIONS = [
    "no scheduling nondeterminism exists in the landscaper; for it simulation contributes seeded interleaved histories "
    "against the fresh-twin reference; the imager's collection transform gets the full SimParallel schedule space",
    "landscape data sets have finite bars spanning several grid steps (property domain); imager data span a positive extent",
    "outputs compared rel 1e-9",
    "sampling, not proof",
]
REAL_COMPONENTS = ["persim.images.PersistenceImager fit/transform/fit_transform", "persim.landscapes.transformer."
                   "PersistenceLandscaper fit/transform/fit_transform (sklearn TransformerMixin.fit_transform)",
                   "persim.landscapes.approximate.PersLandscapeApprox", "joblib.delayed"]
STUB_COMPONENTS = ["joblib.Parallel as seen by persim.images -> SimParallel (imager transforms with n_jobs >= 2 only)"]


def reset_world():
    from sim import world
    world.reload_persim(("persim.images_kernels", "persim.images_weights", "persim.images", "persim.landscapes.base",
                         "persim.landscapes.auxiliary", "persim.landscapes.approximate", "persim.landscapes.transformer"))


def landscaper_cls():
    import persim  # noqa: F401
    return sys.modules["persim.landscapes.transformer"].PersistenceLandscaper


# ---------------------------------------------------------------- generation
def gen_landscape_data(rng, base, span):
    """[H0, H1]: finite bars, integer-ish grid, every degree non-empty."""
    out = []
    for deg in range(2):
        n = rng.randint(1, 5)
        d = []
        for _ in range(n):
            b = base + rng.randint(0, 6) * span / 8.0
            pers = rng.randint(2, 8) * span / 8.0
            d.append([b, b + pers])
        out.append(d)
    return out


def add_essential_bar(rng, X):
    """One bar of infinite death per degree (what ripser reports for H0), born before or with the first finite bar."""
    for d in X:
        b0 = min(q[0] for q in d)
        d.insert(rng.randrange(len(d) + 1), [b0 - rng.choice((0.0, 0.25, 1.0)), float("inf")])
    return X


def gen_case(rng, tier):
    K = rng.randint(1, 4)
    insts = []
    for k in range(K):
        if rng.random() < 0.5:
            cfg = ic.gen_config(rng, max_res=6)
            insts.append({"type": "imager", "cfg": cfg})
        else:
            a = {"num_steps": rng.choice((5, 9, 17, 33, 50)), "hom_deg": rng.randint(0, 1), "flatten": rng.random() < 0.4}
            r = rng.random()
            if r < 0.25:
                a["start"] = rng.choice((-1.0, 0.0, 0.5))
            elif r < 0.5:
                a["stop"] = rng.choice((6.0, 12.0, 20.0))
            elif r < 0.6:
                a["start"], a["stop"] = 0.0, 16.0
            insts.append({"type": "landscaper", "args": a})
    # data pool: several data sets, deliberately shifted / scaled / disjoint from each other
    n_data = rng.randint(2, 4)
    ldata, idata = [], []
    for j in range(n_data):
        base = rng.choice((0.0, 1.0, 10.0, -4.0, 100.0))
        span = rng.choice((4.0, 8.0, 1.0, 16.0))
        ldata.append(gen_landscape_data(rng, base, span))
        if rng.random() < 0.2:
            add_essential_bar(rng, ldata[-1])
        coll = []
        for _ in range(rng.randint(1, 4)):
            n = rng.randint(1, 5)
            coll.append([[base + rng.random() * span, 0.0] for _ in range(n)])
            for q in coll[-1]:
                q[1] = q[0] + 0.05 * span + rng.random() * span
        if rng.random() < 0.3:
            # coordinates on a decimal lattice (multiples of 0.1): extents whose quotient by the pixel size is a hair
            # above or below an integer in binary floating point
            b0_ = rng.choice((0.0, 0.1, 1.0, -0.3))
            coll = [[[b0_ + rng.randint(0, 9) * 0.1, 0.0] for _ in range(rng.randint(1, 4))] for _ in range(rng.randint(1, 3))]
            for d_ in coll:
                for q in d_:
                    q[1] = q[0] + rng.randint(1, 9) * 0.1
            base, span = b0_, 0.4          # whatever is appended below stays next to this data
        r_ = rng.random()
        if r_ < 0.12:
            # H0-like data: every birth coincides (a degenerate birth axis); the statement makes no exception for
            # it, and whatever a fit does with it must not depend on earlier fits
            coll = [[[base, q[1] - q[0] + base] for q in d] for d in coll]
        elif r_ < 0.2:
            coll = [[[q[0], q[0] + 0.5 * span] for q in d] for d in coll]      # every persistence coincides
        else:
            # positive extent in birth and persistence across the collection
            coll[0].append([base + 1.5 * span, base + 1.5 * span + 2.2 * span])
        if rng.random() < 0.25:
            # two diagrams that differ in one coordinate only, by less than what a shortened printout shows
            twin_ = [list(q) for q in rng.choice(coll)]
            q_ = rng.choice(twin_)
            q_[1] = q_[1] + max(abs(q_[1]), span) * rng.choice((1e-3, 1e-5))
            coll.insert(rng.randrange(len(coll) + 1), twin_)
        idata.append(coll)
    ops = []
    for _ in range(rng.randint(2, 14 if tier == "quick" else 32)):
        k = rng.randrange(K)
        kind = rng.choice(("fit", "fit", "transform", "transform", "fit_transform", "transform2", "set"))
        op = {"inst": k, "op": kind, "data": rng.randrange(n_data)}
        if kind == "set":
            # the user fixes (or releases) a parameter on the live object, the way set_params / grid searches do
            if insts[k]["type"] == "landscaper":
                op["param"] = rng.choice(("start", "stop", "stop", "num_steps"))
                if op["param"] == "num_steps":
                    op["val"] = rng.choice((5, 9, 17, 33))
                else:
                    op["val"] = rng.choice((None, "current", "current", -2.0, 0.0, 3.0, 8.0, 25.0, 150.0))
                op["via"] = rng.choice(("attr", "set_params"))
            else:
                op["param"] = rng.choice(("pixel_size", "pixel_size", "birth_range", "pers_range"))
                if op["param"] == "pixel_size":
                    op["val"] = rng.choice((0.1, 0.25, 0.5, 0.3, 1.0)) * rng.choice((1.0, 1.0, 2.0))
                else:
                    lo = rng.choice((0.0, -1.0, 0.5, 10.0))
                    op["val"] = [lo, lo + rng.choice((1.0, 2.5, 4.0))]
            ops.append(op)
            continue
        if insts[k]["type"] == "imager" and rng.random() < 0.2:
            op["alias"] = rng.randrange(4)        # the collection lists one of its array objects a second time
        if insts[k]["type"] == "imager" and rng.random() < 0.3:
            op["form"] = rng.choice(("lists", "stack3d", "view", "tuple"))
        if insts[k]["type"] == "imager" and kind in ("transform", "transform2"):
            op["n_jobs"] = rng.choice((None, None, 2, 3, 1))
        if insts[k]["type"] == "imager" and rng.random() < 0.25:
            op["skew"] = False                    # the data are handed over as birth-persistence pairs
        if insts[k]["type"] == "imager" and op.get("form") != "lists" and rng.random() < 0.3:
            op["dtype"] = "f32"                   # what ripser hands out; estimator and fresh twin get the same arrays
        ops.append(op)
    return {"inputs": {"insts": insts, "ldata": ldata, "idata": idata}, "ops": ops,
            "config": {"parallel_mode": rng.choice(("proc", "thread-coop", "thread-preempt")), "p_switch": rng.choice((3, 8)),
                       "interleave": rng.choice(("scheduler", "scheduler", "as-listed"))}}


# ---------------------------------------------------------------- helpers
def make(inst):
    if inst["type"] == "imager":
        return ic.make_imager(inst["cfg"])
    a = inst["args"]
    kw = {}
    for k in ("start", "stop"):
        if k in a:
            if not isinstance(a[k], (int, float)):
                raise InvalidCase(k)
            kw[k] = a[k]
    ns = a.get("num_steps", 500)
    if not isinstance(ns, int) or ns < 3 or ns > 2000:
        raise InvalidCase("num_steps")
    hd = a.get("hom_deg", 0)
    if hd not in (0, 1):
        raise InvalidCase("hom_deg")
    if "start" in kw and "stop" in kw and not kw["stop"] > kw["start"]:
        raise InvalidCase("start<stop")
    return landscaper_cls()(hom_deg=hd, num_steps=ns, flatten=bool(a.get("flatten", False)), **kw)


def pub_state(inst, est):
    if inst["type"] == "imager":
        return {"birth_range": [float(x) for x in est.birth_range], "pers_range": [float(x) for x in est.pers_range],
                "pixel_size": float(est.pixel_size), "resolution": [int(x) for x in est.resolution],
                "width": float(est.width), "height": float(est.height)}
    return {"start": None if est.start is None else float(est.start), "stop": None if est.stop is None else float(est.stop),
            "num_steps": int(est.num_steps), "hom_deg": int(est.hom_deg), "flatten": bool(est.flatten)}


def _feq(p, q):
    """NaN-safe float equality (rel 1e-9): a non-finite value only equals itself."""
    if p != p or q != q:
        return p != p and q != q
    return abs(p - q) <= 1e-9 * max(abs(p), abs(q), 1e-300)


def same_state(a, b):
    for k in a:
        x, y = a[k], b[k]
        if isinstance(x, list):
            if len(x) != len(y) or any(not _feq(p, q) for p, q in zip(x, y)):
                return k
        elif isinstance(x, float) and isinstance(y, float):
            if not _feq(x, y):
                return k
        elif x != y:
            return k
    return None


def out_list(inst, out):
    if inst["type"] == "imager":
        if isinstance(out, np.ndarray) and out.ndim == 2:
            return [np.asarray(out, float)]
        return [np.asarray(o, float) for o in out]
    o = np.asarray(out)
    if o.dtype.kind in "USO":        # persim's "Bad choice of grid" sentinel array(['empty'])
        return [np.zeros(0)]
    return [o.astype(float)]


def same_out(a, b):
    if len(a) != len(b):
        return False
    for x, y in zip(a, b):
        if x.shape != y.shape:
            return False
        if np.array_equal(x, y, equal_nan=True):          # identical, including identical non-finite entries
            continue
        # rel 1e-9 of the largest entry, with an absolute floor of 1e-14: the weights of these cases are O(1), and a
        # difference of 1e-17 between two images whose entries are tails of that size is the same image
        if not np.all(np.abs(x - y) <= 1e-9 * max(float(np.nanmax(np.abs(y), initial=0.0)), 1e-300) + 1e-14):
            return False
    return True


def data_for(inst, inp, j):
    if inst["type"] == "imager":
        return [ic.arr(d) for d in inp["idata"][j]]
    return [np.array(d, dtype=float).reshape(-1, 2) for d in inp["ldata"][j]]


def check_data(inp):
    for coll in inp["idata"]:
        if not coll:
            raise InvalidCase("empty collection")
        for d in coll:
            ic.check_bd(d)
            if not d:
                raise InvalidCase("empty diagram in fit data")
        allp = np.vstack([ic.arr(d) for d in coll])
        bp = np.column_stack([allp[:, 0], allp[:, 1] - allp[:, 0]])
        if max(np.ptp(bp[:, 0]), np.ptp(bp[:, 1])) > 400:
            raise InvalidCase("extent too large for the pixel sizes in use")
    for X in inp["ldata"]:
        if len(X) != 2:
            raise InvalidCase("need H0,H1")
        for d in X:
            ic.check_bd(d)
            if not d:
                raise InvalidCase("empty degree")
            a = np.array(d, float)
            a = a[np.isfinite(a[:, 1])]
            if not len(a):
                raise InvalidCase("no finite bar")
            span = a[:, 1].max() - a[:, 0].min()
            if not np.all(a[:, 1] - a[:, 0] >= span / 8.0 - 1e-12):
                raise InvalidCase("bars must span several grid steps")


def run_case(case, sched):
    inp, cfg = case["inputs"], case["config"]
    insts = inp["insts"]
    if not insts:
        raise InvalidCase("no estimator")
    for it in insts:
        if it.get("type") == "imager":
            ic.check_config(it["cfg"])
        elif it.get("type") != "landscaper":
            raise InvalidCase("type")
    if len(inp["ldata"]) != len(inp["idata"]) or not inp["ldata"]:
        raise InvalidCase("data pools")
    check_data(inp)
    mode = cfg.get("parallel_mode", "proc")
    if mode not in ("proc", "thread-coop", "thread-preempt"):
        raise InvalidCase("mode")
    world = simparallel.World(sched, mode, int(cfg.get("p_switch", 8)))
    simparallel.install(world)
    try:
        return _run(case, sched, world)
    finally:
        simparallel.uninstall()


def _call(site, fn, *a, **k):
    try:
        with contextlib.redirect_stdout(io.StringIO()):      # persim prints "Bad choice of grid"
            return fn(*a, **k)
    except (Violation, InvalidCase):
        raise
    except simparallel.WorkerError as e:
        raise Violation("parallel==serial", site, "worker-raised:" + e.tname, str(e)[:400])
    except Exception as e:
        raise Violation("no-exception", site, type(e).__name__, "%s raised %s: %s" % (site, type(e).__name__, str(e)[:300]))


def _run(case, sched, world):
    inp = case["inputs"]
    insts = inp["insts"]
    insts = copy.deepcopy(insts)          # the user-fixed parameters of each instance evolve with "set" operations
    ests = [make(it) for it in insts]
    learned = [set() for _ in ests]       # landscaper limits currently holding a learned (not user-fixed) value
    user_sets = 0
    nfits = [0] * len(ests)
    last_fit_data = [None] * len(ests)
    fitted_on = [[] for _ in ests]
    refits_diff = 0
    par = 0
    evals = 0
    from sim.sched import interleave
    for opi, op in interleave(sched, case["ops"], "inst", case["config"].get("interleave", "as-listed")):
        k, kind, j = op.get("inst"), op.get("op"), op.get("data")
        if not isinstance(k, int) or not 0 <= k < len(ests) or not isinstance(j, int) or not 0 <= j < len(inp["ldata"]):
            raise InvalidCase("op refs")
        it, est = insts[k], ests[k]
        tname = "PersistenceImager" if it["type"] == "imager" else "PersistenceLandscaper"
        if kind != "set" and it["type"] == "landscaper" and "stop" not in it["args"] and \
                any(q[1] == float("inf") for d_ in inp["ldata"][j] for q in d_):
            # learning `stop` from data with an essential bar gives an infinite grid (fit's own TODO): only landscapers
            # whose stop the user fixed see such data
            continue
        if kind == "set":
            prm, val = op.get("param"), op.get("val")
            user_sets += 1
            if it["type"] == "landscaper":
                if prm not in ("start", "stop", "num_steps") or op.get("via") not in ("attr", "set_params"):
                    raise InvalidCase("set")
                if val == "current":
                    val = getattr(est, prm)          # the user pins whatever the object reports right now
                    if val is not None:
                        val = float(val)
                if prm == "num_steps":
                    if not isinstance(val, int) or not 3 <= val <= 2000:
                        raise InvalidCase("num_steps")
                elif val is not None and not isinstance(val, (int, float)):
                    raise InvalidCase("limit")
                # keep the grid non-degenerate with respect to the other limit as far as it is known
                other = getattr(est, "stop" if prm == "start" else "start") if prm != "num_steps" else None
                if prm == "start" and val is not None and other is not None and not val < other:
                    continue
                if prm == "stop" and val is not None and other is not None and not val > other:
                    continue
                site = "PersistenceLandscaper.%s=" % prm if op["via"] == "attr" else "PersistenceLandscaper.set_params(%s)" % prm
                if op["via"] == "attr":
                    _call(site, setattr, est, prm, val)
                else:
                    _call(site, est.set_params, **{prm: val})
                if val is None:
                    it["args"].pop(prm, None)
                else:
                    it["args"][prm] = val
                learned[k].discard(prm)
                got = getattr(est, prm)
                if not (got is None and val is None) and not (got is not None and val is not None and float(got) == float(val)):
                    raise Violation("user-fixed-parameter-kept", site, prm, "assigned %r, the object reports %r" % (val, got), opi)
            else:
                if prm == "pixel_size":
                    if not isinstance(val, (int, float)) or not val > 0:
                        raise InvalidCase("pixel_size")
                    w_, h_ = float(est.width), float(est.height)
                    ext = [max(np.ptp(np.vstack([ic.arr(d) for d in coll])[:, q]) for coll in inp["idata"]) for q in (0, 1)]
                    cfg_ext = max(it["cfg"]["birth_range"][1] - it["cfg"]["birth_range"][0],
                                  it["cfg"]["pers_range"][1] - it["cfg"]["pers_range"][0])
                    if max(w_, h_) / val > 60 or cfg_ext / val > 40 or 2.5 * max(ext) / val > 120:
                        continue                      # keeps every later image small; not a statement about persim
                    _call("PersistenceImager.pixel_size=", setattr, est, "pixel_size", float(val))
                    it["cfg"]["pixel_size"] = float(val)
                elif prm in ("birth_range", "pers_range"):
                    if not (isinstance(val, list) and len(val) == 2 and val[1] > val[0]):
                        raise InvalidCase("range")
                    if (val[1] - val[0]) / float(est.pixel_size) > 60:
                        continue
                    _call("PersistenceImager.%s=" % prm, setattr, est, prm, (float(val[0]), float(val[1])))
                else:
                    raise InvalidCase("set")
            sched.note("op%d set inst%d %s=%r" % (opi, k, prm, val))
            continue
        X = data_for(it, inp, j)
        if it["type"] == "imager" and op.get("dtype") is not None:
            if op["dtype"] != "f32" or op.get("form") == "lists":
                raise InvalidCase("dtype")
            X = [x.astype(np.float32) for x in X]
        if it["type"] == "imager" and op.get("alias") is not None and X:
            X = X + [X[int(op["alias"]) % len(X)]]       # same object twice (e.g. resampling with replacement)
        Xkeep = [x.copy() for x in X]
        form = op.get("form") if it["type"] == "imager" else None
        Xgiven = X
        if form == "lists":
            Xgiven = [x.tolist() for x in X]
        elif form == "tuple":
            Xgiven = tuple(X)
        elif form == "view":
            wide = [np.full((len(x), 4), 99.0, dtype=x.dtype) for x in X]
            for w_, x in zip(wide, X):
                w_[:, 0:3:2] = x
            Xgiven = [w_[:, 0:3:2] for w_ in wide]
        elif form == "stack3d" and len(X) >= 2 and len({len(x) for x in X}) == 1:
            Xgiven = np.stack(X)
        from props import c19_api as _api
        given_digest = _api.digest_args(list(Xgiven) if isinstance(Xgiven, tuple) else Xgiven)
        X_arrays = X
        X = Xgiven
        nj = op.get("n_jobs") if it["type"] == "imager" else None
        if nj is not None and (not isinstance(nj, int) or nj == 0):
            raise InvalidCase("n_jobs")
        kw = {"n_jobs": nj} if (it["type"] == "imager" and nj is not None) else {}
        sk = {}
        if op.get("skew") is not None:
            if it["type"] != "imager" or op["skew"] is not False:
                raise InvalidCase("skew")
            sk = {"skew": False}
        kw.update(sk)

        def fresh_twin_fitted():
            tw = make(it)
            _call(tname + ".fit(twin)", tw.fit, [x.copy() for x in Xkeep], **sk)
            return tw

        if kind in ("fit", "fit_transform"):
            nfits[k] += 1
            nth = "#1" if nfits[k] == 1 else "#>=2"
            if fitted_on[k] and fitted_on[k][-1] != j:
                refits_diff += 1
            site = "%s.%s%s" % (tname, kind, nth)
            if kind == "fit":
                _call(site, est.fit, X, **sk)
                out = None
            else:
                out = out_list(it, _call(site, est.fit_transform, X, **sk))
            evals += 1
            fitted_on[k].append(j)
            last_fit_data[k] = j
            if it["type"] == "landscaper":
                learned[k] = {q for q in ("start", "stop") if q not in it["args"]}
            tw = fresh_twin_fitted()
            diff = same_state(pub_state(it, tw), pub_state(it, est))
            if diff is not None:
                raise Violation("fit-depends-only-on-latest-data", site, diff,
                                "after fitting on data set %d (earlier fits on %r) the estimator has %s=%r, a fresh "
                                "estimator with the same constructor arguments fitted on the same data has %r"
                                % (j, fitted_on[k][:-1], diff, pub_state(it, est)[diff], pub_state(it, tw)[diff]), opi)
            want = out_list(it, _call(tname + ".transform(twin)", tw.transform, [x.copy() for x in Xkeep], **sk))
            if out is not None:
                if not same_out(out, want):
                    raise Violation("fit_transform==fit-then-transform", site, "output",
                                    "fit_transform output differs from fit followed by transform on a fresh twin", opi)
            got = out_list(it, _call(tname + ".transform", est.transform, X, **sk))
            evals += 1
            if not same_out(got, want):
                raise Violation("fit-depends-only-on-latest-data", site, "output",
                                "transform after this fit differs from a fresh twin fitted on the same data only "
                                "(earlier fits on %r)" % (fitted_on[k][:-1],), opi)
        elif kind in ("transform", "transform2"):
            if it["type"] == "landscaper" and any(q not in it["args"] and q not in learned[k] for q in ("start", "stop")):
                # never fitted and no user-fixed grid: the output is derived from the call's own data; the only
                # clauses that apply are "repeatable" and "does not alter the transformer's state"
                site = "PersistenceLandscaper.transform(unfitted)"
                before = pub_state(it, est)
                o1 = out_list(it, _call(site, est.transform, X))
                after = pub_state(it, est)
                diff = same_state(before, after)
                if diff is not None:
                    raise Violation("transform-leaves-fitted-state", site, diff,
                                    "%s changed from %r to %r across transform of a never-fitted landscaper"
                                    % (diff, before[diff], after[diff]), opi)
                o2 = out_list(it, _call(site, est.transform, X))
                evals += 2
                if not same_out(o1, o2):
                    raise Violation("transform-repeatable", site, "differs", "two transforms of the same input differ", opi)
                continue
            site = "%s.transform(n_jobs=%s)" % (tname, "None" if nj is None else ("1" if nj == 1 else ">=2"))
            before = pub_state(it, est)
            o1 = out_list(it, _call(site, est.transform, X, **kw))
            evals += 1
            if nj not in (None, 1) and len(X_arrays) > 1:
                par += 1
            after = pub_state(it, est)
            diff = same_state(before, after)
            if diff is not None:
                raise Violation("transform-leaves-fitted-state", site, diff,
                                "%s changed from %r to %r across transform" % (diff, before[diff], after[diff]), opi)
            o2 = out_list(it, _call(site, est.transform, X, **(sk if kind == "transform" else kw)))
            evals += 1
            if not same_out(o1, o2):
                raise Violation("transform-repeatable", site, "differs", "two transforms of the same input differ", opi)
            if it["type"] == "imager":
                # element by element, in order: image k is the image of diagram k alone
                for idx, d in enumerate(X_arrays):
                    single = np.asarray(_call(site, est.transform, d, **sk), float)
                    evals += 1
                    if not same_out([o1[idx]], [single]):
                        other = [q for q in range(len(X_arrays)) if q != idx and same_out([o1[idx]], [np.asarray(est.transform(X_arrays[q], **sk), float)])]
                        raise Violation("collection-element-by-element-in-order", site, "order" if other else "value",
                                        "output #%d of the collection is not the image of diagram #%d%s; mode=%s"
                                        % (idx, idx, " (it is the image of #%r)" % other if other else "", world.mode), opi)
        else:
            raise InvalidCase("op")
        for x, xk in zip(X_arrays, Xkeep):
            if x.shape != xk.shape or x.tobytes() != xk.tobytes():
                raise Violation("input-untouched", "%s.%s" % (tname, kind), "modified", "the input diagrams were modified", opi)
        if _api.digest_args(list(Xgiven) if isinstance(Xgiven, tuple) else Xgiven) != given_digest:
            raise Violation("input-untouched", "%s.%s" % (tname, kind), "modified/" + str(form),
                            "the collection handed over as %s was modified" % form, opi)
        sched.note("op%d %s inst%d data%d -> %s" % (opi, kind, k, j, json.dumps(pub_state(it, est), sort_keys=True)))
    return {
        "evals": evals, "ops": len(case["ops"]),
        "key": hashlib.sha1(json.dumps([insts, case["ops"], inp["ldata"], inp["idata"]], sort_keys=True).encode()).hexdigest()[:16],
        "nontrivial": len(case["ops"]) >= 4 and (refits_diff >= 1 or par >= 1),
        "probes": {"refits_on_different_data": refits_diff, "parallel_collection_transforms": par,
                   "landscapers": sum(1 for i in insts if i["type"] == "landscaper"),
                   "imagers": sum(1 for i in insts if i["type"] == "imager"),
                   "user_fixed_start_or_stop": sum(1 for i in insts if i["type"] == "landscaper" and ("start" in i["args"] or "stop" in i["args"])),
                   "user_parameter_assignments": user_sets,
                   "mode:" + world.mode: 1},
        "faults": dict(world.stats, interleaved_estimators=int(len(insts) >= 2)),
    }


def shrink_candidates(case):
    from sim import shrink as shr
    ops = case["ops"]
    for idx in shr.list_deletions(ops, min_len=1):
        c = copy.deepcopy(case)
        for i in reversed(idx):
            del c["ops"][i]
        yield c
    if case["config"]["parallel_mode"] != "thread-coop":
        c = copy.deepcopy(case)
        c["config"]["parallel_mode"] = "thread-coop"
        yield c
    for i, o in enumerate(ops):
        if o.get("n_jobs") is not None:
            c = copy.deepcopy(case)
            c["ops"][i]["n_jobs"] = None
            yield c
        for key in ("dtype", "form", "alias", "skew"):
            if o.get(key) is not None:
                c = copy.deepcopy(case)
                del c["ops"][i][key]
                yield c
    for k, it in enumerate(case["inputs"]["insts"]):
        if it["type"] == "landscaper":
            for key in ("start", "stop", "flatten"):
                if key in it["args"] and it["args"][key] not in (False,):
                    c = copy.deepcopy(case)
                    del c["inputs"]["insts"][k]["args"][key]
                    yield c
            if it["args"].get("num_steps") != 5:
                c = copy.deepcopy(case)
                c["inputs"]["insts"][k]["args"]["num_steps"] = 5
                yield c
        else:
            for key, val in (("kernel", "iso-scalar"), ("weight", "persistence")):
                if it["cfg"][key] != val:
                    c = copy.deepcopy(case)
                    c["inputs"]["insts"][k]["cfg"][key] = val
                    yield c
    for pool in ("ldata", "idata"):
        for j, X in enumerate(case["inputs"][pool]):
            for di, d in enumerate(X):
                if pool == "idata" and len(X) > 1:
                    c = copy.deepcopy(case)
                    del c["inputs"][pool][j][di]
                    yield c
                for idx in shr.list_deletions(d, min_len=1):
                    c = copy.deepcopy(case)
                    for q in reversed(idx):
                        del c["inputs"][pool][j][di][q]
                    yield c
    for pool in ("ldata", "idata"):
        for path, v in shr._paths(case["inputs"][pool]):
            if isinstance(v, list):
                continue
            for nv in shr.simpler_numbers(v):
                c = copy.deepcopy(case)
                shr._set(c["inputs"][pool], path, nv)
                yield c


def cleanup():
    simparallel.uninstall()
