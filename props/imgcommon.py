"""Imager configurations and diagrams shared by C11 / C18 / C19."""
import math

import numpy as np

from sim.sched import InvalidCase


# ---- user-supplied callables (module level: picklable by reference; the lambda is
# ---- created at materialisation time and needs cloudpickle, as with real loky)
def logistic_kernel(x, y, mu=None, s=0.1):
    """A valid CDF kernel: product of two logistic CDFs centred at mu."""
    zx = np.clip((np.asarray(x, float) - mu[0]) / s, -700, 700)
    zy = np.clip((np.asarray(y, float) - mu[1]) / s, -700, 700)
    return 1.0 / (1.0 + np.exp(-zx)) / (1.0 + np.exp(-zy))


def saturating_weight(birth, pers, a=1.0):
    p = np.asarray(pers, float)
    return a * p * p / (1.0 + p * p)


KERNELS = ("iso-scalar", "iso-matrix", "iso-ndarray", "diag", "corr", "corr-high", "uniform", "user")
WEIGHTS = ("persistence", "persistence-n2", "linear_ramp", "ramp-zero-below", "ramp-int-params", "user", "lambda", "ramp-signed")
BOUNDED_WEIGHTS = ("linear_ramp", "ramp-zero-below", "ramp-int-params")     # finite at infinite persistence


def gen_config(rng, max_res=10, exotic=False):
    p = rng.choice((0.1, 0.2, 0.25, 0.5, 1.0))
    nb, npx = rng.randint(1, max_res), rng.randint(1, max_res)
    b0 = rng.choice((0.0, 0.0, -1.0, 0.5))
    p0 = rng.choice((0.0, 0.0, 0.0, -0.5 * p))
    cfg = {
        "birth_range": [b0, b0 + nb * p], "pers_range": [p0, p0 + npx * p], "pixel_size": p,
        "kernel": rng.choice(KERNELS), "weight": rng.choice(WEIGHTS),
        "var": rng.choice((1.0, 0.05, 0.3, p * p, 4.0)), "rho": rng.choice((0.5, -0.3, 0.2, 0.8)),
    }
    r = rng.random() if exotic else 1.0      # unusual units / offsets only where the caller fixes the region (C11)
    if r < 0.08:
        # data in tiny units (everything scaled by 1e-9; variance by its square)
        u = 1e-9
        cfg["birth_range"] = [x * u for x in cfg["birth_range"]]
        cfg["pers_range"] = [x * u for x in cfg["pers_range"]]
        cfg["pixel_size"] = p * u
        cfg["var"] = cfg["var"] * u * u
        cfg["unit"] = u
    elif r < 0.16:
        # births with a large common offset relative to the pixel size
        off = rng.choice((2e4, 1e3, 5e5)) * p
        cfg["birth_range"] = [cfg["birth_range"][0] + off, cfg["birth_range"][0] + off + nb * p]
    return cfg


def kernel_of(cfg):
    k, v = cfg["kernel"], float(cfg["var"])
    if k == "iso-scalar":
        return "gaussian", {"sigma": v}
    if k == "iso-matrix":
        return "gaussian", {"sigma": [[v, 0.0], [0.0, v]]}
    if k == "iso-ndarray":
        return "gaussian", {"sigma": np.array([[v, 0.0], [0.0, v]])}          # the caller's own float64 array
    if k == "diag":
        return "gaussian", {"sigma": np.array([[v, 0.0], [0.0, 2.5 * v]])}
    if k == "corr":
        r = float(cfg["rho"])
        return "gaussian", {"sigma": np.array([[v, r * v], [r * v, v]])}
    if k == "corr-high":
        return "gaussian", {"sigma": np.array([[v, 0.95 * v * 1.2], [0.95 * v * 1.2, 1.44 * v]])}
    if k == "uniform":
        return "uniform", {"width": 2.0 * math.sqrt(v), "height": math.sqrt(v)}
    if k == "user":
        return logistic_kernel, {"s": math.sqrt(v) / 2}
    raise InvalidCase("kernel")


def weight_of(cfg):
    w = cfg["weight"]
    if w == "persistence":
        return "persistence", {"n": 1.0}
    if w == "persistence-n2":
        return "persistence", {"n": 2.0}
    u = float(cfg.get("unit", 1.0))
    if w == "linear_ramp":
        return "linear_ramp", {"low": 0.5, "high": 2.0, "start": 0.1 * u, "end": 1.0 * u}
    if w == "ramp-zero-below":
        return "linear_ramp", {"low": 0.0, "high": 1.0, "start": 0.3 * u, "end": 0.8 * u}
    if w == "ramp-int-params":       # the parameters as Python ints, as in the documentation's examples
        return "linear_ramp", {"low": 0, "high": 2, "start": 0, "end": 1 if u == 1.0 else u}
    if w == "ramp-signed":           # a weight that changes sign (the statement restricts only its positivity clauses)
        return "linear_ramp", {"low": -1.0, "high": 1.0, "start": 0.0, "end": 1.0 * u}
    if w == "user":
        return saturating_weight, {"a": 1.5}
    if w == "lambda":
        return (lambda birth, pers, c=1.0: c * np.abs(np.asarray(pers, float))), {"c": 0.7}
    raise InvalidCase("weight")


def weights_at(cfg, bp):
    """My own evaluation of the configured weight at birth-persistence points."""
    w, params = weight_of(cfg)
    bp = np.asarray(bp, float).reshape(-1, 2)
    if w == "persistence":
        return bp[:, 1] ** params["n"]
    if w == "linear_ramp":
        out = np.empty(len(bp))
        for i, p in enumerate(bp[:, 1]):
            if p < params["start"]:
                out[i] = params["low"]
            elif p > params["end"]:
                out[i] = params["high"]
            else:
                out[i] = (p - params["start"]) * (params["high"] - params["low"]) / (params["end"] - params["start"]) + params["low"]
        return out
    return np.asarray(w(bp[:, 0], bp[:, 1], **params), float)


def check_config(cfg):
    for k in ("birth_range", "pers_range"):
        v = cfg.get(k)
        if not (isinstance(v, list) and len(v) == 2 and all(isinstance(x, (int, float)) for x in v)
                and math.isfinite(v[0]) and math.isfinite(v[1]) and v[1] > v[0]):
            raise InvalidCase(k)
    p = cfg.get("pixel_size")
    if not isinstance(p, (int, float)) or not math.isfinite(p) or p <= 0:
        raise InvalidCase("pixel_size")
    if (cfg["birth_range"][1] - cfg["birth_range"][0]) / p > 40 or (cfg["pers_range"][1] - cfg["pers_range"][0]) / p > 40:
        raise InvalidCase("too many pixels")
    if cfg.get("kernel") not in KERNELS or cfg.get("weight") not in WEIGHTS:
        raise InvalidCase("kernel/weight")
    v = cfg.get("var")
    if not isinstance(v, (int, float)) or not math.isfinite(v) or v <= 0:
        raise InvalidCase("var")
    r = cfg.get("rho")
    if not isinstance(r, (int, float)) or not abs(r) < 0.99:
        raise InvalidCase("rho")


def make_imager(cfg):
    import sys
    import persim  # noqa: F401
    PI = sys.modules["persim.images"].PersistenceImager
    check_config(cfg)
    k, kp = kernel_of(cfg)
    w, wp = weight_of(cfg)
    if cfg.get("defaults"):
        # weight, kernel and their parameters left at the library's defaults (persistence n=1, unit Gaussian)
        if cfg["kernel"] != "iso-matrix" or float(cfg["var"]) != 1.0 or cfg["weight"] != "persistence":
            raise InvalidCase("defaults")
        return PI(birth_range=(float(cfg["birth_range"][0]), float(cfg["birth_range"][1])),
                  pers_range=(float(cfg["pers_range"][0]), float(cfg["pers_range"][1])), pixel_size=float(cfg["pixel_size"]))
    return PI(birth_range=(float(cfg["birth_range"][0]), float(cfg["birth_range"][1])),
              pers_range=(float(cfg["pers_range"][0]), float(cfg["pers_range"][1])),
              pixel_size=float(cfg["pixel_size"]), weight=w, weight_params=wp, kernel=k, kernel_params=kp)


def gen_bd_diagram(rng, cfg, max_n=6, allow_empty=True):
    """Birth-death diagram with points inside / on the border of / outside the imaged region."""
    if allow_empty and rng.random() < 0.1:
        return []
    b0, b1 = cfg["birth_range"]
    p0, p1 = cfg["pers_range"]
    p = cfg["pixel_size"]
    n = rng.randint(1, max_n)
    if rng.random() < 0.04:
        n = rng.choice((31, 32, 33, 63, 64, 65, 127, 128, 129, 256))      # sizes around typical block lengths
    pts = []
    for _ in range(n):
        r = rng.random()
        if r < 0.55:      # inside
            b = b0 + rng.random() * (b1 - b0)
            pe = max(p0, 0.0) + rng.random() * (p1 - max(p0, 0.0))
        elif r < 0.7:     # on a pixel border / region border
            b = b0 + rng.randint(0, max(1, round((b1 - b0) / p))) * p
            pe = max(0.0, p0 + rng.randint(0, max(1, round((p1 - p0) / p))) * p)
        elif r < 0.85:    # outside, sometimes far outside relative to the kernel width
            far = rng.choice((1.0, 1.0, 30.0, 300.0))
            b = b0 + rng.choice((-1.5, 1.7)) * (b1 - b0) * far
            pe = abs(p1) * rng.choice((1.5, 2.0)) * rng.choice((1.0, far))
        else:             # zero persistence (zero weight under the persistence weight)
            b = b0 + rng.random() * (b1 - b0)
            pe = 0.0
        pts.append([b, b + pe])
    if rng.random() < 0.25 and pts:
        pts.append(list(rng.choice(pts)))       # repeated pair
    if rng.random() < 0.2:
        pts = [[float(round(x * 4) / 4) for x in q] for q in pts]
        pts = [[q[0], max(q)] for q in pts]
    if cfg.get("weight") == "ramp-signed" and rng.random() < 0.5:
        # pairs whose signed weights cancel exactly (persistences 1/4 and 3/4 of the ramp: weights -1/2 and +1/2)
        u = float(cfg.get("unit", 1.0))
        pts = [[b0 + 0.25 * (b1 - b0), b0 + 0.25 * (b1 - b0) + 0.25 * u], [b0 + 0.5 * (b1 - b0), b0 + 0.5 * (b1 - b0) + 0.75 * u]]
        if rng.random() < 0.5:
            pts = pts + [list(q) for q in pts]
    # Essential classes (infinite death) are deliberately not generated: the imager does not define their image
    # (the default persistence weight gives inf*0 = nan, correlated kernels give nan as well), so rejecting or
    # imaging them differently would be a legitimate change, not a violation of C11.
    return pts


def check_bd(pts):
    if not isinstance(pts, list):
        raise InvalidCase("diagram")
    for q in pts:
        if not (isinstance(q, list) and len(q) == 2 and all(isinstance(x, (int, float)) for x in q)
                and math.isfinite(q[0]) and not math.isnan(q[1]) and q[1] >= q[0]):
            raise InvalidCase("diagram row")


def arr(pts):
    return np.array(pts, dtype=np.float64).reshape(-1, 2) if pts else np.zeros((0, 2))


def imager_state(im):
    """Public state digest source (plain Python values)."""
    def plain(v):
        if isinstance(v, dict):
            return {k: plain(x) for k, x in sorted(v.items())}
        if isinstance(v, np.ndarray):
            return ["nd", v.dtype.str, list(v.shape), v.tobytes().hex()]
        if isinstance(v, (list, tuple)):
            return [plain(x) for x in v]
        if isinstance(v, (np.floating, np.integer)):
            return v.item()
        if callable(v):
            return getattr(v, "__name__", "callable")
        return v
    return plain({"birth_range": im.birth_range, "pers_range": im.pers_range, "pixel_size": im.pixel_size,
                  "width": im.width, "height": im.height, "resolution": im.resolution,
                  "weight": im.weight, "kernel": im.kernel, "weight_params": im.weight_params,
                  "kernel_params": im.kernel_params})
