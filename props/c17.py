"""C17 - mGH accepts every graph representation and degrades gracefully:
representations / relabellings / collections / disconnected graphs, under every
RNG state (one RNG stream is consumed sequentially across all pairs of a
collection call) and every warnings-filter state."""
import copy
import hashlib
import json

import numpy as np

from models import ref_mgh
from props import mgh_common as mg
from sim import simrandom
from sim.sched import InvalidCase, Violation

ID = "C17"
NEEDS_ZYGOTE = True          # only used if a change makes gromov_hausdorff run joblib workers in processes
TITLE = "mGH accepts every graph representation and degrades gracefully"
CASE_TIMEOUT_S = 120.0
PLAN = {
    "quick": {"runs": 16000, "chunk": 40, "shrink_s": 30.0},
    "thorough": {"budget_s": 600.0, "chunk": 25, "shrink_s": 60.0},
}
RULE = ("case kinds: 'repr' (one labelled pair rendered as nested lists / dense ndarray / CSR / CSC / COO x upper / "
        "symmetric / lower fill x int / bool dtype, 2..5 renderings each evaluated under a different RNG schedule: "
        "lower bounds must be identical, every bracket valid), 'relabel' (random relabellings: valid brackets of the "
        "same exact distance), 'collection' (2..5 graphs in mixed representations: symmetric matrices, zero diagonal, "
        "entry (i,j) brackets the exact pairwise distance while one RNG stream is consumed across all pairs), "
        "'disconnected' (graph with several components, unique or tied largest: warning emitted under filter "
        "'always', no exception, result brackets the distance for a largest component). RNG seam and modes as C05; "
        "warnings filter chosen by the scheduler. distinct_nontrivial = distinct cases (by graphs) with >= 3 vertices "
        "in some graph, exact reference available and >= 2 evaluations.")
ASSUMPTIONS = [
    "any permutation / index is a legal RNG output",
    "for a tie among largest components any of them is accepted",
    "exact reference limited to about 9 vertices",
    "sampling, not proof",
]
REAL_COMPONENTS = ["persim.gromov_hausdorff (working tree)", "scipy.sparse / csgraph", "numpy", "python warnings",
                   "real MT19937 in rng mode 'real'"]
STUB_COMPONENTS = ["np.random as seen by persim.gromov_hausdorff -> SimRandom (all modes except 'real')"]
KINDS = ("repr", "repr", "relabel", "collection", "collection", "disconnected", "disconnected")


def gen_disconnected(rng, max_n):
    k = rng.randint(2, 3)
    sizes = [rng.randint(1, max(1, max_n // 2)) for _ in range(k)]
    if rng.random() < 0.7:          # make the largest unique
        i = rng.randrange(k)
        sizes[i] = max(sizes) + 1
    n = sum(sizes)
    edges = []
    off = 0
    blocks = []
    for s in sizes:
        blocks.append(list(range(off, off + s)))
        edges += [[u + off, v + off] for u, v in mg.gen_connected(rng, s)]
        off += s
    # interleave labels so that the component is not a contiguous block
    if rng.random() < 0.6:
        e, _ = mg.relabel(rng, n, edges)
        edges = e
    return {"n": n, "edges": edges}


def reset_world():
    from sim import world
    world.reload_persim(("persim.gromov_hausdorff",))


def gen_case(rng, tier):
    kind = rng.choice(KINDS)
    max_n = rng.choice((4, 6, 7)) if tier == "quick" else rng.choice((4, 6, 7, 8, 9))
    if kind in ("repr", "relabel") and rng.random() < 0.5:
        max_n = rng.choice((9, 10))          # sparse graphs of this size are where the curvature search has choices
    ev = lambda: {"mode": rng.choice(simrandom.MODES), "k": rng.randrange(1000)}  # noqa: E731
    inp = {"kind": kind, "mso": list(rng.choice(mg.MSO_CHOICES))}
    if kind in ("repr", "relabel"):
        G, H, iso = mg.gen_pair(rng, max_n)
        inp.update({"G": G, "H": H})
        k = rng.randint(2, 5)
        if kind == "repr" and rng.random() < 0.012:
            # diameters and vertex counts right at the boundaries of the integer types the distances are stored in,
            # against a single vertex (2 mGH(G, point) = diam G at any size), in every representation
            n_ = rng.choice((127, 128, 129, 130, 255, 256, 257, 258))
            e_ = [[i, i + 1] for i in range(n_ - 1)]
            if rng.random() < 0.5:
                e_.append([n_ - 1, 0])
            G, H = {"n": n_, "edges": e_}, {"n": 1, "edges": []}
            if rng.random() < 0.5:
                G, H = H, G
            inp.update({"G": G, "H": H, "mso": [0.0, 0.0]})
            k = 2
        if kind == "repr" and max_n >= 9 and rng.random() < 0.6:
            # many RNG schedules on one labelled pair, without the (expensive) exact reference: the lower bound
            # must not move with the RNG state
            inp["no_reference"] = True
            k = rng.randint(5, 8)
        inp["renderings"] = [{"repG": mg.gen_repr(rng), "repH": mg.gen_repr(rng), "ev": ev(),
                              "seedG": rng.randrange(10 ** 6), "seedH": rng.randrange(10 ** 6)} for _ in range(k)]
    elif kind == "collection":
        m = rng.randint(2, 5) if rng.random() < 0.85 else rng.randint(9, 12)
        gs = [mg.gen_graph(rng, max_n if m <= 5 else min(max_n, 5))]
        for _ in range(m - 1):
            if rng.random() < 0.3:
                g = rng.choice(gs)
                e, _ = mg.relabel(rng, g["n"], g["edges"])
                gs.append({"n": g["n"], "edges": e})
            else:
                gs.append(mg.gen_graph(rng, max_n))
        inp["graphs"] = gs
        inp["reps"] = [mg.gen_repr(rng) for _ in gs]
        if m >= 9 and rng.random() < 0.7:       # many conversions of small dense integer arrays
            dt = rng.choice(("int8", "uint8", "int"))
            inp["reps"] = [{"fmt": "dense", "fill": rng.choice(mg.FILLS), "dtype": dt} for _ in gs]
        inp["evs"] = [ev() for _ in range(rng.randint(1, 2))]
        inp["container"] = rng.choice(("list", "tuple"))
        if rng.random() < 0.25:
            # one 3-D ndarray: a stack of equally sized dense adjacency matrices is an iterable of matrices too
            n0 = gs[0]["n"]
            gs2 = [gs[0]]
            for g in gs[1:]:
                gs2.append(g if g["n"] == n0 else {"n": n0, "edges": mg.gen_connected(rng, n0)})
            inp["graphs"] = gs2
            dt = rng.choice(("int", "int8"))
            inp["reps"] = [{"fmt": "dense", "fill": rng.choice(mg.FILLS), "dtype": dt} for _ in gs2]
            inp["container"] = "ndarray3d"
    else:
        inp["G"] = gen_disconnected(rng, max_n)
        inp["H"] = mg.gen_graph(rng, max_n) if rng.random() < 0.8 else gen_disconnected(rng, max_n)
        inp["repG"], inp["repH"] = mg.gen_repr(rng), mg.gen_repr(rng)
        inp["evs"] = [ev() for _ in range(rng.randint(1, 3))]
        inp["swap"] = rng.random() < 0.3
        if rng.random() < 0.2:
            inp["concurrent"] = rng.randint(2, 3)        # the same call from 2-3 threads of one process at once
            inp["p_switch"] = rng.choice((2, 4, 8))
    return {"inputs": inp, "config": {"warn_filter": rng.choice(("always", "always", "default", "once", "ignore"))},
            "ops": []}


def _perm_graph(g, seed):
    import random
    r = random.Random(seed)
    e, perm = mg.relabel(r, g["n"], g["edges"])
    return {"n": g["n"], "edges": e}


def _connected(g):
    return len(ref_mgh.components(g["n"], g["edges"])) == 1


def run_case(case, sched):
    with mg.parallel_world(sched, case):
        return _run_case(case, sched)


def _run_case(case, sched):
    inp, cfg = case["inputs"], case["config"]
    kind = inp.get("kind")
    wf = cfg.get("warn_filter", "always")
    if wf not in ("always", "default", "once", "ignore"):
        raise InvalidCase("filter")
    mso = inp.get("mso")
    if not (isinstance(mso, list) and len(mso) == 2):
        raise InvalidCase("mso")
    evals = 0
    probes = {}
    nontrivial = False
    if kind in ("repr", "relabel"):
        G, H = inp["G"], inp["H"]
        mg.check_graph_json(G)
        mg.check_graph_json(H)
        if not (_connected(G) and _connected(H)):
            raise InvalidCase("connected graphs expected")
        exact2 = None if inp.get("no_reference") else mg.exact_double_mgh(G, H)[0]
        rs = inp.get("renderings") or []
        if not rs:
            raise InvalidCase("no rendering")
        lbs = []
        for i, r in enumerate(rs):
            Gi, Hi = (G, H) if kind == "repr" else (_perm_graph(G, r["seedG"]), _perm_graph(H, r["seedH"]))
            AG, AH = mg.materialize(Gi, r["repG"]), mg.materialize(Hi, r["repH"])
            (lb, ub), _, draws = mg.call_gh(sched, (AG, AH), mso, r["ev"]["mode"], r["ev"]["k"], wf)
            evals += 1
            where = "(rendering %d: G as %s, H as %s; rng %s)" % (i, r["repG"], r["repH"], r["ev"]["mode"])
            sched.note("%s lb=%r ub=%r" % (where, float(lb), float(ub)))
            mg.check_bracket(float(lb), float(ub), exact2, "gromov_hausdorff." + kind, False, where)
            lbs.append((float(lb), where))
        if kind == "repr":
            for lb, where in lbs[1:]:
                if lb != lbs[0][0]:
                    raise Violation("same-labelling=>same-lower-bound", "gromov_hausdorff.repr", "differs",
                                    "lower bound %r %s but %r %s" % (lbs[0][0], lbs[0][1], lb, where))
        probes["formats_seen"] = len({r["repG"]["fmt"] for r in rs} | {r["repH"]["fmt"] for r in rs})
        probes["symmetric_or_lower_fill"] = int(any(r["repG"]["fill"] != "upper" or r["repH"]["fill"] != "upper" for r in rs))
        nontrivial = (exact2 is not None or inp.get("no_reference")) and max(G["n"], H["n"]) >= 3 and len(rs) >= 2
        probes["lower_bound_stability_only"] = int(bool(inp.get("no_reference")))
        key = [kind, G, H]
    elif kind == "collection":
        gs = inp.get("graphs") or []
        reps = inp.get("reps") or []
        if len(gs) < 2 or len(reps) != len(gs):
            raise InvalidCase("collection needs >= 2 graphs")
        for g in gs:
            mg.check_graph_json(g)
            if not _connected(g):
                raise InvalidCase("connected graphs expected")
        As = [mg.materialize(g, r) for g, r in zip(gs, reps)]
        if inp.get("container") == "tuple":
            As = tuple(As)
        elif inp.get("container") == "ndarray3d":
            if len({g["n"] for g in gs}) != 1 or any(r.get("fmt") != "dense" for r in reps):
                raise InvalidCase("a 3-D stack needs equally sized dense matrices")
            As = np.stack([np.asarray(a) for a in As])
        ex = {}
        for i in range(len(gs)):
            for j in range(i + 1, len(gs)):
                ex[(i, j)] = mg.exact_double_mgh(gs[i], gs[j])[0]
        for e in inp.get("evs") or [{"mode": "identity", "k": 0}]:
            (lbs, ubs), _, draws = mg.call_gh(sched, (As,), mso, e["mode"], e["k"], wf, site="gromov_hausdorff.collection")
            evals += 1
            lbs, ubs = np.asarray(lbs, float), np.asarray(ubs, float)
            n = len(gs)
            for nm, M in (("lower", lbs), ("upper", ubs)):
                if M.shape != (n, n):
                    raise Violation("square-matrices", "gromov_hausdorff.collection", nm, "%s matrix has shape %r for %d graphs" % (nm, M.shape, n))
                if not np.array_equal(M, M.T):
                    raise Violation("symmetric-matrices", "gromov_hausdorff.collection", nm, "%s matrix not symmetric: %r" % (nm, M.tolist()))
                if np.any(np.diag(M) != 0):
                    raise Violation("zero-diagonal", "gromov_hausdorff.collection", nm, "%s matrix diagonal %r" % (nm, np.diag(M).tolist()))
            for (i, j), e2 in ex.items():
                mg.check_bracket(lbs[i, j], ubs[i, j], e2, "gromov_hausdorff.collection", False,
                                 "(entry (%d,%d) of a %d-graph collection, rng %s, %d draws in the shared stream)"
                                 % (i, j, n, e["mode"], len(draws)))
            sched.note("collection lbs=%r ubs=%r" % (lbs.tolist(), ubs.tolist()))
        probes["collection_size"] = len(gs)
        probes["collection_as_3d_stack"] = int(inp.get("container") == "ndarray3d")
        probes["collection_ge_9_graphs"] = int(len(gs) >= 9)
        nontrivial = max(g["n"] for g in gs) >= 3 and all(v is not None for v in ex.values())
        key = [kind, gs]
    elif kind == "disconnected":
        G, H = inp["G"], inp["H"]
        mg.check_graph_json(G)
        mg.check_graph_json(H)
        cg, ncg = mg.largest_components(G)
        ch, nch = mg.largest_components(H)
        if ncg < 2 and nch < 2:
            raise InvalidCase("need a disconnected graph")
        AG, AH = mg.materialize(G, inp["repG"]), mg.materialize(H, inp["repH"])
        args = (AH, AG) if inp.get("swap") else (AG, AH)
        exacts = []
        for a in cg:
            for b in ch:
                exacts.append(mg.exact_double_mgh(a, b)[0])
        for e in inp.get("evs") or [{"mode": "identity", "k": 0}]:
            (lb, ub), nw, draws = mg.call_gh(sched, args, mso, e["mode"], e["k"], wf, site="gromov_hausdorff.disconnected")
            evals += 1
            lb, ub = float(lb), float(ub)
            sched.note("disconnected lb=%r ub=%r warn=%d" % (lb, ub, nw))
            if wf == "always" and nw < 1:
                raise Violation("disconnected=>warning", "gromov_hausdorff.disconnected", "no-warning",
                                "a disconnected graph was passed, filter 'always', no 'disconnected' warning emitted")
            mg.check_bracket(lb, ub, None, "gromov_hausdorff.disconnected", False, "(disconnected input)")
            if all(x is not None for x in exacts):
                ok = any(lb <= 0.5 * x <= ub for x in exacts)
                if not ok:
                    raise Violation("brackets-largest-component", "gromov_hausdorff.disconnected",
                                    "unique-largest" if len(exacts) == 1 else "tied-largest",
                                    "bounds (%r, %r) do not bracket the distance %r computed for the largest "
                                    "connected component(s)" % (lb, ub, [0.5 * x for x in exacts]))
        nconc = inp.get("concurrent")
        if nconc:
            if not isinstance(nconc, int) or not 2 <= nconc <= 4:
                raise InvalidCase("concurrent")
            import warnings
            from sim import callers, simrandom
            gh = mg.sut()
            cargs = []
            for _ in range(nconc):
                a_, h_ = mg.materialize(G, inp["repG"]), mg.materialize(H, inp["repH"])      # objects of its own per caller
                cargs.append((h_, a_) if inp.get("swap") else (a_, h_))
            kw_ = {} if mso is None else {"mapping_sample_size_order": np.array(mso, dtype=float)}
            e0 = (inp.get("evs") or [{"mode": "identity", "k": 0}])[0]
            cstats = {}
            with simrandom.rng_scope(sched, e0["mode"], e0["k"]):
                with warnings.catch_warnings(record=True) as w_:
                    warnings.simplefilter("always")
                    outs = callers.run_concurrent(sched, [(lambda a=a: gh(*a, **kw_)) for a in cargs],
                                                  int(inp.get("p_switch", 4)), cstats)
            csite = "gromov_hausdorff.disconnected(concurrent)"
            for ci, (st_, v_) in enumerate(outs):
                if st_ != "ok":
                    raise Violation("no-exception", csite, type(v_).__name__,
                                    "caller #%d of %d concurrent callers: gromov_hausdorff raised %s: %s" % (ci, nconc, type(v_).__name__, str(v_)[:300]))
                lb, ub = float(v_[0]), float(v_[1])
                mg.check_bracket(lb, ub, None, csite, False, "(disconnected input, caller #%d of %d)" % (ci, nconc))
                if all(x is not None for x in exacts) and not any(lb <= 0.5 * x <= ub for x in exacts):
                    raise Violation("brackets-largest-component", csite, "unique-largest" if len(exacts) == 1 else "tied-largest",
                                    "caller #%d of %d concurrent callers: bounds (%r, %r) do not bracket the distance %r of the "
                                    "largest connected component(s)" % (ci, nconc, lb, ub, [0.5 * x for x in exacts]))
            nw_ = len([x for x in w_ if "disconnected" in str(x.message)])
            if nw_ < nconc:
                raise Violation("disconnected=>warning", csite, "lost-warning",
                                "%d concurrent calls each received a disconnected graph (filter 'always'); only %d "
                                "'disconnected' warnings were emitted" % (nconc, nw_))
            evals += nconc
            probes["concurrent_callers"] = nconc
            probes["thread_switches"] = cstats.get("thread_switches", 0)
        probes["tied_largest_component"] = int(len(exacts) > 1)
        probes["both_disconnected"] = int(ncg > 1 and nch > 1)
        probes["component_not_contiguous"] = 1
        nontrivial = max(G["n"], H["n"]) >= 3
        key = [kind, G, H]
    else:
        raise InvalidCase("kind")
    sched.count("warnfilter:" + wf)
    probes["kind:" + kind] = 1
    return {"evals": evals, "key": hashlib.sha1(json.dumps(key).encode()).hexdigest()[:16],
            "nontrivial": bool(nontrivial) and evals >= (1 if kind != "repr" else 2), "probes": probes, "faults": {}}


def _drop_vertex(g, v):
    ren = {u: (u if u < v else u - 1) for u in range(g["n"]) if u != v}
    return {"n": g["n"] - 1, "edges": [[ren[a], ren[b]] for a, b in g["edges"] if a != v and b != v]}


def shrink_candidates(case):
    from sim import shrink as shr
    inp = case["inputs"]
    for lname in ("renderings", "evs"):
        lst = inp.get(lname)
        if lst:
            for idx in shr.list_deletions(lst, min_len=1):
                c = copy.deepcopy(case)
                for i in reversed(idx):
                    del c["inputs"][lname][i]
                yield c
    if inp.get("graphs"):
        for i in range(len(inp["graphs"])):
            if len(inp["graphs"]) > 2:
                c = copy.deepcopy(case)
                del c["inputs"]["graphs"][i]
                del c["inputs"]["reps"][i]
                yield c
        if inp.get("container") != "list":
            c = copy.deepcopy(case)
            c["inputs"]["container"] = "list"
            yield c
        for i, g in enumerate(inp["graphs"]):
            for v in range(g["n"] - 1, -1, -1):
                if g["n"] > 1:
                    c = copy.deepcopy(case)
                    c["inputs"]["graphs"][i] = _drop_vertex(g, v)
                    yield c
    for name in ("G", "H"):
        g = inp.get(name)
        if g:
            for v in range(g["n"] - 1, -1, -1):
                if g["n"] > 1:
                    c = copy.deepcopy(case)
                    c["inputs"][name] = _drop_vertex(g, v)
                    yield c
            for i in range(len(g["edges"])):
                c = copy.deepcopy(case)
                del c["inputs"][name]["edges"][i]
                yield c
    # plain representations / rng
    simple = {"fmt": "dense", "fill": "upper", "dtype": "int"}
    for r in ("repG", "repH"):
        if inp.get(r) and inp[r] != simple:
            c = copy.deepcopy(case)
            c["inputs"][r] = dict(simple)
            yield c
    for i, r in enumerate(inp.get("renderings") or []):
        for k in ("repG", "repH"):
            if r[k] != simple:
                c = copy.deepcopy(case)
                c["inputs"]["renderings"][i][k] = dict(simple)
                yield c
        if r["ev"]["mode"] != "identity":
            c = copy.deepcopy(case)
            c["inputs"]["renderings"][i]["ev"] = {"mode": "identity", "k": 0}
            yield c
    for i, r in enumerate(inp.get("reps") or []):
        if r != simple and inp.get("container") != "ndarray3d":
            c = copy.deepcopy(case)
            c["inputs"]["reps"][i] = dict(simple)
            yield c
    for i, e in enumerate(inp.get("evs") or []):
        if e["mode"] != "identity":
            c = copy.deepcopy(case)
            c["inputs"]["evs"][i] = {"mode": "identity", "k": 0}
            yield c
    if inp.get("concurrent"):
        c = copy.deepcopy(case)
        del c["inputs"]["concurrent"]
        yield c
        if inp["concurrent"] > 2:
            c = copy.deepcopy(case)
            c["inputs"]["concurrent"] = 2
            yield c
    if case["config"].get("warn_filter") != "always":
        c = copy.deepcopy(case)
        c["config"]["warn_filter"] = "always"
        yield c
    if inp.get("mso") != [0.0, 0.0]:
        c = copy.deepcopy(case)
        c["inputs"]["mso"] = [0.0, 0.0]
        yield c
