"""Shared engine of C01 / C06 / C07: evaluating persim's distances under an owned
set-iteration order (SimSet) or under a real PYTHONHASHSEED interpreter."""
import atexit
import json
import os
import subprocess
import sys
import warnings

import numpy as np

from sim import simset
from sim.sched import HarnessError, Violation

VERIF = os.path.dirname(os.path.dirname(os.path.abspath(__file__)))
ORDER_MODES = ("uniform", "uniform", "uniform", "sparse", "reverse", "insertion")
WARN_FILTERS = ("always", "always", "default", "once", "ignore")
WARN_FILTERS_AND_ERROR = WARN_FILTERS + ("error",)        # 'error' is an injected fault: see WarnedAsError


class WarnedAsError(Exception):
    """Under the warnings filter 'error' the call failed with the warning it would otherwise have emitted: an
    accepted outcome of that injected fault (the call may fail; if it returns, the value must be right)."""

_servers = {}


def sut():
    import persim  # noqa: F401
    return (sys.modules["persim.bottleneck"].bottleneck,
            sys.modules["persim.wasserstein"].wasserstein)


class Server(object):
    def __init__(self, h):
        env = dict(os.environ)
        env["PYTHONHASHSEED"] = str(h)
        env["PYTHONDONTWRITEBYTECODE"] = "1"
        self.h = h
        self.p = subprocess.Popen(
            [sys.executable, "-W", "ignore::SyntaxWarning",
             os.path.join(VERIF, "sim", "hashseed_server.py")],
            stdin=subprocess.PIPE, stdout=subprocess.PIPE, env=env, text=True, bufsize=1)
        self.probe = None

    def _hello(self):
        line = self.p.stdout.readline()
        hello = json.loads(line) if line else {}
        if not hello.get("ready") or hello.get("hashseed") != str(self.h):
            raise HarnessError("hash-seed server %s did not start: %r" % (self.h, hello))
        self.probe = hello["probe"]

    def ask(self, q):
        if self.probe is None:
            self._hello()
        self.p.stdin.write(json.dumps(q) + "\n")
        self.p.stdin.flush()
        line = self.p.stdout.readline()
        if not line:
            raise HarnessError("hash-seed server %s died" % self.h)
        return json.loads(line)

    def close(self):
        try:
            self.p.stdin.close()
            self.p.wait(timeout=5)
        except Exception:
            self.p.kill()


def get_server(h):
    s = _servers.get(h)
    if s is None or s.p.poll() is not None:
        s = _servers[h] = Server(h)
    return s


def close_servers():
    for s in list(_servers.values()):
        s.close()
    _servers.clear()


atexit.register(close_servers)


def reset_world():
    """Fresh module state for the distance modules, here and in the hash-seed interpreters."""
    from sim import world
    world.reload_persim(("persim.bottleneck", "persim.wasserstein"))
    for s in _servers.values():
        if s.p.poll() is None:
            s.ask({"reset": True})


STACKS = (None, None, None, {"deep": 600}, {"low_limit": 140}, {"deep": 300, "low_limit": 140})


def _frames():
    import sys
    f, n = sys._getframe(), 0
    while f is not None:
        n += 1
        f = f.f_back
    return n


def in_stack(stack, thunk):
    """Run thunk() the way a caller deep inside its own recursion, or one that lowered the interpreter's recursion
    limit, would: `deep` extra frames below the call, and / or a recursion limit only `low_limit` frames above the
    call site.  Both are process state a library function must cope with (or fail loudly), never answer wrongly."""
    import sys
    if not stack:
        return thunk()
    deep = int(stack.get("deep", 0))
    low = stack.get("low_limit")
    if not 0 <= deep <= 800 or (low is not None and not 100 <= int(low) <= 1000):
        from sim.sched import InvalidCase
        raise InvalidCase("stack")

    def at_depth(k):
        if k > 0:
            return at_depth(k - 1)
        if low is None:
            return thunk()
        old = sys.getrecursionlimit()
        sys.setrecursionlimit(_frames() + int(low))
        try:
            return thunk()
        finally:
            sys.setrecursionlimit(max(old, 1000))
    return at_depth(deep)


def call_bottleneck(sched, A, B, matching=False, mode="uniform", warn_filter="always",
                    site="bottleneck", stack=None):
    """Run persim.bottleneck under a scheduler-owned set order.
    Returns (value, rows_or_None, n_warnings).  Exceptions become violations."""
    bott_, _ = sut()
    bott = bott_ if not stack else (lambda *a_, **k_: in_stack(stack, lambda: bott_(*a_, **k_)))
    with simset.order_scope(sched, mode):
        with warnings.catch_warnings(record=True) as w:
            warnings.simplefilter(warn_filter)
            try:
                r = bott(A, B, matching=matching)
            except Violation:
                raise
            except Warning as e:
                if warn_filter == "error":
                    raise WarnedAsError(str(e))
                raise Violation("no-exception", site, type(e).__name__, "bottleneck raised %s: %s" % (type(e).__name__, e))
            except Exception as e:
                raise Violation("no-exception", site, type(e).__name__,
                                "bottleneck raised %s: %s" % (type(e).__name__, e))
    nwarn = len([x for x in w if "non-finite" in str(x.message)])
    if matching:
        d, rows = r
        return float(d), np.asarray(rows, dtype=float), nwarn
    return float(r), None, nwarn


def call_bottleneck_real(h, ptsA, ptsB, ra, rb, matching=False, site="bottleneck"):
    res = get_server(h).ask({"a": ptsA, "b": ptsB, "ra": ra, "rb": rb, "matching": matching})
    if res["err"]:
        raise Violation("no-exception", site, res["err"].split(":")[0],
                        "bottleneck raised under PYTHONHASHSEED=%s: %s" % (h, res["err"]))
    rows = np.asarray(res["m"], dtype=float).reshape(-1, 3) if res["m"] is not None else None
    return float.fromhex(res["d"]), rows, res["warn"]


def call_wasserstein(A, B, matching=False, warn_filter="always", site="wasserstein"):
    _, wass = sut()
    with warnings.catch_warnings(record=True) as w:
        warnings.simplefilter(warn_filter)
        try:
            r = wass(A, B, matching=matching)
        except Warning as e:
            if warn_filter == "error":
                raise WarnedAsError(str(e))
            raise Violation("no-exception", site, type(e).__name__, "wasserstein raised %s: %s" % (type(e).__name__, e))
        except Exception as e:
            raise Violation("no-exception", site, type(e).__name__,
                            "wasserstein raised %s: %s" % (type(e).__name__, e))
    nwarn = len([x for x in w if "non-finite" in str(x.message)])
    if matching:
        d, rows = r
        return float(d), np.asarray(rows, dtype=float), nwarn
    return float(r), None, nwarn


class parallel_world(object):
    """The distance functions run no workers today; should a change make them, the workers belong to the scheduler
    (threads or isolated processes, as the caller's joblib configuration decides)."""

    def __init__(self, sched, case):
        self.sched, self.cfg, self.seed = sched, case.get("config") or {}, int(case.get("sched_seed", 0))

    def __enter__(self):
        from sim import simparallel
        from sim.sched import InvalidCase
        mode = self.cfg.get("parallel_mode") or ("thread-coop", "proc", "thread-preempt")[(self.seed >> 3) % 3]
        if mode not in ("proc", "thread-coop", "thread-preempt"):
            raise InvalidCase("parallel mode")
        # the caller's ambient joblib configuration may also set a default number of workers
        dn = self.cfg.get("default_n_jobs", (None, 2, 3)[(self.seed >> 6) % 3])
        self.world = simparallel.World(self.sched, mode, 8, default_n_jobs=dn)
        simparallel.install(self.world)
        return self.world

    def __exit__(self, *a):
        from sim import simparallel
        simparallel.uninstall()
        return False
