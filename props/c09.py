"""C09 - landscape arithmetic is pointwise and leaves operands untouched.

No scheduling nondeterminism exists here (DESIGN.md section 0).  What is searched:
operation histories over a *shared pool* of landscape objects (the same object is
an operand many times, results become operands), rejected operations in the
middle of a history, deferred computation (compute=False) firing inside a
foreground operation, and re-execution of earlier operations late in the history.
Every object's reference model is captured from what its constructor produced;
operations are applied to the models by definition and compared pointwise."""
import contextlib
import copy
import hashlib
import io
import json
import math
import sys

import numpy as np

from sim.sched import InvalidCase, Violation

ID = "C09"
TITLE = "Landscape arithmetic is pointwise and leaves operands untouched"
CASE_TIMEOUT_S = 60.0
PLAN = {
    "quick": {"runs": 24000, "chunk": 50, "shrink_s": 30.0},
    "thorough": {"budget_s": 600.0, "chunk": 50, "shrink_s": 60.0},
}
RULE = ("case = pool of 2..5 landscape objects (exact from diagrams, exact from critical points with interior values of "
        "any sign, exact with compute=False, grid from diagrams, grid from values, grid with compute=False, "
        "vectorize(exact)) + history of 1..15 operations by interleaved clients over the shared pool: + - neg, scalar * "
        "(both sides) and /, snap_pl, lc_approx, average_approx, results fed back into the pool, rejected operations "
        "(degree mismatch, start/stop/num_steps mismatch), replays of earlier operations. After every operation the "
        "result is compared pointwise (all breakpoints of all operands, midpoints, outside points; every depth, missing "
        "depth = 0) with the operation applied to the reference models, and *every* pool object (operands and bystanders) "
        "must still evaluate to its model with unchanged public attributes. distinct_nontrivial = distinct (pool, history) "
        "with >= 3 successful operations of which >= 1 uses a result of an earlier operation as operand.")
ASSUMPTIONS = [
    "no scheduling nondeterminism exists for this property; simulation contributes seeded shared-pool histories, rejected "
    "operations and lazy computation as the only 'faults', checked step by step against reference models",
    "models are captured from what the constructors produced (construction correctness is C03/C08, not claimed here)",
    "value arrays and critical-point lists vanish at both ends (landscape functions), so resampling outside an operand's "
    "grid is unambiguous",
    "tolerance: 1e-9 * value scale + 1e-11 * abscissa scale",
    "sampling, not proof",
]
REAL_COMPONENTS = ["persim.landscapes.exact / approximate / auxiliary / tools / base (working tree)", "numpy"]
STUB_COMPONENTS = []


def reset_world():
    from sim import world
    world.reload_persim(("persim.landscapes.base", "persim.landscapes.auxiliary", "persim.landscapes.approximate",
                         "persim.landscapes.exact", "persim.landscapes.tools"))


def classes():
    import persim  # noqa: F401
    return (sys.modules["persim.landscapes.exact"].PersLandscapeExact,
            sys.modules["persim.landscapes.approximate"].PersLandscapeApprox,
            sys.modules["persim.landscapes.tools"])


# ---------------------------------------------------------------- generation
def gen_bars(rng, base, unit):
    n = rng.randint(1, 5)
    out = []
    for _ in range(n):
        b = base + rng.randint(0, 8) * unit * rng.choice((1.0, 1.0, 0.5))
        d = b + rng.randint(1, 8) * unit * rng.choice((1.0, 1.0, 2.0, 1.5))
        out.append([b, d])
    if rng.random() < 0.25:
        out.append(list(rng.choice(out)))         # repeated bar
    if rng.random() < 0.3:
        # end points nudged off the lattice by a few millionths: operands then have breakpoints that nearly coincide
        out = [[b + rng.choice((0.0, 1e-6, 3e-6, 5e-5)) * max(abs(b), unit), d + rng.choice((0.0, 1e-6, -3e-6, 5e-5)) * max(abs(d), unit)]
               for b, d in out]
    return out


def gen_cps(rng, base, unit):
    depths = []
    for _ in range(rng.randint(1, 3)):
        k = rng.randint(3, 7)
        nudge = rng.choice((0.0, 0.0, 1e-6, 5e-5))
        xs = sorted({(base + rng.randint(0, 16) * unit * 0.5) * (1.0 + (nudge if rng.random() < 0.5 else 0.0)) for _ in range(k)})
        if len(xs) < 3:
            xs = [base, base + unit, base + 2 * unit]
        ys = [0.0] + [rng.choice((-2.0, -1.0, -0.5, 0.5, 1.0, 1.5, 3.0, 0.0)) * unit for _ in xs[1:-1]] + [0.0]
        depths.append([[x, y] for x, y in zip(xs, ys)])
    return depths


def gen_obj(rng, base, unit, grid):
    t = rng.choice(("exact_dgm", "exact_dgm", "exact_cp", "exact_lazy", "approx_dgm", "approx_dgm", "approx_vals",
                    "approx_lazy", "vectorize"))
    hd = rng.choice((0, 0, 0, 1))
    if t in ("exact_dgm", "exact_lazy"):
        return {"t": "exact_dgm", "dgms": [gen_bars(rng, base, unit), gen_bars(rng, base, unit)], "hom_deg": hd,
                "compute": t == "exact_dgm"}
    if t == "exact_cp":
        return {"t": "exact_cp", "cps": gen_cps(rng, base, unit), "hom_deg": hd}
    g = dict(grid) if rng.random() < 0.8 else {"start": grid["start"] - unit, "stop": grid["stop"] + 2 * unit,
                                                "num_steps": rng.choice((grid["num_steps"], grid["num_steps"] + 4))}
    if t in ("approx_dgm", "approx_lazy"):
        return dict(g, t="approx_dgm", dgms=[gen_bars(rng, base, unit), gen_bars(rng, base, unit)], hom_deg=hd,
                    compute=t == "approx_dgm")
    if t == "approx_vals":
        nd = rng.randint(1, 3)
        vals = []
        for _ in range(nd):
            row = [rng.choice((0.0, 0.5, 1.0, -1.0, 2.5, -0.25)) * unit for _ in range(g["num_steps"])]
            row[0] = row[-1] = 0.0
            vals.append(row)
        spec = dict(g, t="approx_vals", values=vals, hom_deg=hd, layout=rng.choice(("c", "c", "fortran")))
        if rng.random() < 0.4:            # integer samples handed over as an integer array
            spec["values"] = [[float(rng.choice((0, 1, 2, -1, 3))) for _ in range(g["num_steps"])] for _ in range(nd)]
            for row in spec["values"]:
                row[0] = row[-1] = 0.0
            spec["int_values"] = True
        return spec
    return dict(g, t="vectorize", src={"t": "exact_dgm", "dgms": [gen_bars(rng, base, unit), gen_bars(rng, base, unit)],
                                       "hom_deg": hd, "compute": True})


def gen_case(rng, tier):
    base = rng.choice((0.0, 0.0, 1.0, -3.0, 100.0, 1000.0))
    unit = rng.choice((1.0, 1.0, 0.5, 0.1, 4.0))
    grid = {"start": base - unit, "stop": base + 25 * unit, "num_steps": rng.choice((79, 105, 131))}
    pool = [gen_obj(rng, base, unit, grid) for _ in range(rng.randint(2, 5))]
    ops = []
    n = len(pool)
    for _ in range(rng.randint(1, 15 if tier == "quick" else 40)):
        kind = rng.choice(("add", "add", "sub", "sub", "neg", "mul", "rmul", "div", "snap", "lc", "avg", "replay"))
        op = {"op": kind, "client": rng.randrange(3)}
        if kind in ("add", "sub"):
            op["a"], op["b"] = rng.randrange(n), rng.randrange(n)
        elif kind == "neg":
            op["a"] = rng.randrange(n)
        elif kind in ("mul", "rmul", "div"):
            op["a"] = rng.randrange(n)
            op["c"] = rng.choice((2.0, -1.0, 0.5, 3, -2.5, 0.1, 1e3, 0.0 if kind != "div" else 4.0))
        elif kind in ("snap", "lc", "avg"):
            op["items"] = [rng.randrange(n) for _ in range(rng.randint(1, 3))]
            if kind == "lc":
                op["coeffs"] = [rng.choice((1.0, -1.0, 0.5, 2.0, 0.0, -3.0)) for _ in op["items"]]
            if rng.random() < 0.15:
                op["inside_loop"] = True
            if rng.random() < 0.5:
                op["grid"] = {"start": grid["start"] - rng.choice((0, 1, 2)) * unit,
                              "stop": grid["stop"] + rng.choice((0, 1, 3)) * unit,
                              "num_steps": rng.choice((grid["num_steps"], 91, 151))}
        else:
            op["k"] = rng.randrange(max(1, len(ops))) if ops else 0
        ops.append(op)
        if kind != "replay":
            n += 1            # the result joins the pool (if the op is rejected the slot holds None)
    return {"inputs": {"pool": pool}, "ops": ops, "config": {}}


# ---------------------------------------------------------------- models
class ExactM(object):
    kind = "exact"

    def __init__(self, cps, hom_deg):
        self.cps = [[(float(x), float(y)) for x, y in d] for d in cps]
        self.hom_deg = hom_deg
        self.tscale = self.scale()      # magnitude the tolerance refers to (propagated from the operands)

    def xs(self):
        return [x for d in self.cps for x, _ in d]

    def eval(self, k, t):
        if k >= len(self.cps):
            return np.zeros_like(t)
        d = self.cps[k]
        return np.interp(t, [p[0] for p in d], [p[1] for p in d], left=0.0, right=0.0)

    def depth(self):
        return len(self.cps)

    def scale(self):
        return max([abs(y) for d in self.cps for _, y in d] + [0.0])


class ApproxM(object):
    kind = "approx"

    def __init__(self, values, start, stop, num_steps, hom_deg):
        self.values = np.array(values, dtype=float).reshape(-1, int(num_steps)) if np.size(values) else np.zeros((0, int(num_steps)))
        self.start, self.stop, self.num_steps, self.hom_deg = float(start), float(stop), int(num_steps), hom_deg
        self.tscale = self.scale()

    def grid(self):
        return (self.start, self.stop, self.num_steps)

    def depth(self):
        return len(self.values)

    def scale(self):
        return float(np.abs(self.values).max(initial=0.0))

    def resample(self, start, stop, num_steps):
        """Linear interpolation of every depth onto the new grid, by definition."""
        old = self.start + (self.stop - self.start) * np.arange(self.num_steps) / (self.num_steps - 1)
        new = start + (stop - start) * np.arange(num_steps) / (num_steps - 1)
        out = np.zeros((len(self.values), num_steps))
        for k, row in enumerate(self.values):
            for i, t in enumerate(new):
                if t <= old[0]:
                    out[k, i] = row[0]
                elif t >= old[-1]:
                    out[k, i] = row[-1]
                else:
                    j = int(np.searchsorted(old, t, side="right")) - 1
                    j = min(max(j, 0), self.num_steps - 2)
                    w = (t - old[j]) / (old[j + 1] - old[j])
                    out[k, i] = row[j] * (1 - w) + row[j + 1] * w
        return out


def pad(a, n):
    if len(a) >= n:
        return a
    return np.vstack([a, np.zeros((n - len(a), a.shape[1]))])


# ---------------------------------------------------------------- SUT helpers
def quiet(fn, *a, **k):
    with contextlib.redirect_stdout(io.StringIO()):
        return fn(*a, **k)


def build(spec, Exact, Approx, tools):
    t = spec.get("t")
    hd = spec.get("hom_deg", 0)
    if hd not in (0, 1):
        raise InvalidCase("hom_deg")
    if t == "exact_dgm":
        dg = _dgms(spec)
        return quiet(Exact, dgms=dg, hom_deg=hd, compute=bool(spec.get("compute", True)))
    if t == "exact_cp":
        cps = spec.get("cps")
        _check_cps(cps)
        return quiet(Exact, critical_pairs=copy.deepcopy(cps), hom_deg=hd)
    g = _grid(spec)
    if t == "approx_dgm":
        dg = _dgms(spec)
        lo = min(p[0] for p in spec["dgms"][hd])
        hi = max(p[1] for p in spec["dgms"][hd])
        if lo < g["start"] or hi > g["stop"]:
            raise InvalidCase("grid must cover the diagram")
        return quiet(Approx, dgms=dg, hom_deg=hd, compute=bool(spec.get("compute", True)), **g)
    if t == "approx_vals":
        v = spec.get("values")
        if not (isinstance(v, list) and v and all(isinstance(r, list) and len(r) == g["num_steps"] for r in v)):
            raise InvalidCase("values")
        if any(r[0] != 0 or r[-1] != 0 for r in v):
            raise InvalidCase("values must vanish at both ends")
        arr_ = np.array(v, dtype=float)
        if spec.get("int_values") and np.all(arr_ == np.round(arr_)):
            arr_ = arr_.astype(np.int64)
        lay_ = spec.get("layout", "c")
        if lay_ == "fortran":
            arr_ = np.asfortranarray(arr_)                    # e.g. samples stored column-wise and handed over as samples.T
        elif lay_ != "c":
            raise InvalidCase("layout")
        return quiet(Approx, values=arr_, hom_deg=hd, **g)
    if t == "vectorize":
        src = build(spec["src"], Exact, Approx, tools)
        if spec["src"].get("t") != "exact_dgm":
            raise InvalidCase("vectorize source")
        lo = min(p[0] for p in spec["src"]["dgms"][spec["src"]["hom_deg"]])
        hi = max(p[1] for p in spec["src"]["dgms"][spec["src"]["hom_deg"]])
        if lo < g["start"] or hi > g["stop"]:
            raise InvalidCase("grid must cover")
        return quiet(tools.vectorize, src, start=g["start"], stop=g["stop"], num_steps=g["num_steps"])
    raise InvalidCase("object type")


def _dgms(spec):
    dg = spec.get("dgms")
    if not (isinstance(dg, list) and len(dg) == 2):
        raise InvalidCase("dgms")
    out = []
    for d in dg:
        if not (isinstance(d, list) and d):
            raise InvalidCase("empty degree")
        for p in d:
            if not (isinstance(p, list) and len(p) == 2 and all(isinstance(x, (int, float)) and math.isfinite(x) for x in p)
                    and p[1] > p[0]):
                raise InvalidCase("bar")
        out.append(np.array(d, dtype=float))
    return out


def _check_cps(cps):
    if not (isinstance(cps, list) and cps):
        raise InvalidCase("cps")
    for d in cps:
        if not (isinstance(d, list) and len(d) >= 2):
            raise InvalidCase("depth")
        for p in d:
            if not (isinstance(p, list) and len(p) == 2 and all(isinstance(x, (int, float)) and math.isfinite(x) for x in p)):
                raise InvalidCase("pair")
        xs = [p[0] for p in d]
        if any(b <= a for a, b in zip(xs, xs[1:])) or d[0][1] != 0 or d[-1][1] != 0:
            raise InvalidCase("abscissae must increase strictly and the function must vanish at both ends")


def _grid(spec):
    try:
        g = {"start": spec["start"], "stop": spec["stop"], "num_steps": spec["num_steps"]}
    except KeyError:
        raise InvalidCase("grid")
    if not (isinstance(g["num_steps"], int) and 3 <= g["num_steps"] <= 400 and isinstance(g["start"], (int, float))
            and isinstance(g["stop"], (int, float)) and g["stop"] > g["start"]):
        raise InvalidCase("grid values")
    return g


def capture(obj, Exact):
    """Reference model of a freshly constructed object, from what the constructor produced."""
    quiet(obj.compute_landscape)
    if isinstance(obj, Exact):
        return ExactM(obj.critical_pairs, obj.hom_deg)
    return ApproxM(obj.values, obj.start, obj.stop, obj.num_steps, obj.hom_deg)


def observe(obj, Exact):
    """Public observation of an object (normalised through compute_landscape)."""
    quiet(obj.compute_landscape)
    if isinstance(obj, Exact):
        return ExactM(obj.critical_pairs, obj.hom_deg)
    v = np.asarray(obj.values)
    if v.dtype.kind in "USO":
        raise Violation("result-is-numeric", "values", "non-numeric", "values holds %r" % (v.tolist(),))
    return ApproxM(v, obj.start, obj.stop, obj.num_steps, obj.hom_deg)


def probes_for(models):
    xs = sorted({x for m in models if m.kind == "exact" for x in m.xs()})
    if not xs:
        return np.zeros(0)
    mids = [(a + b) / 2 for a, b in zip(xs, xs[1:])]
    thirds = [a + (b - a) * 0.31 for a, b in zip(xs, xs[1:])]
    span = (xs[-1] - xs[0]) or 1.0
    return np.array(sorted(set(xs + mids + thirds + [xs[0] - 0.1 * span, xs[-1] + 0.1 * span])))


def compare(obs, model, tol, t, site, clause, discr, opi, what):
    if obs.kind != model.kind:
        raise Violation(clause, site, discr + "/type", "%s is a %s landscape, expected %s" % (what, obs.kind, model.kind), opi)
    if obs.hom_deg != model.hom_deg:
        raise Violation(clause, site, discr + "/hom_deg", "%s has hom_deg %r, expected %r" % (what, obs.hom_deg, model.hom_deg), opi)
    if obs.kind == "exact":
        tt = np.array(sorted(set(t.tolist()) | set(obs.xs()))) if len(t) or obs.xs() else t
        for k in range(max(obs.depth(), model.depth())):
            a, b = obs.eval(k, tt), model.eval(k, tt)
            bad = ~(np.abs(a - b) <= tol)            # NaN-safe: a non-finite value is never "within tolerance"
            if bad.any():
                i = int(np.argmax(bad))
                raise Violation(clause, site, discr, "%s: depth %d at t=%r is %r, pointwise definition gives %r"
                                % (what, k, float(tt[i]), float(a[i]), float(b[i])), opi)
    else:
        if obs.grid() != model.grid():
            raise Violation(clause, site, discr + "/grid", "%s lives on grid %r, expected %r" % (what, obs.grid(), model.grid()), opi)
        n = max(obs.depth(), model.depth())
        a, b = pad(obs.values, n), pad(model.values, n)
        if a.shape != b.shape:
            raise Violation(clause, site, discr + "/shape", "%s has values of shape %r, expected %r" % (what, a.shape, b.shape), opi)
        if a.size and not np.all(np.abs(a - b) <= tol):       # NaN-safe
            k, i = np.unravel_index(int(np.argmax(~(np.abs(a - b) <= tol))), a.shape)
            raise Violation(clause, site, discr, "%s: depth %d at grid node %d is %r, pointwise definition gives %r"
                            % (what, k, i, float(a[k, i]), float(b[k, i])), opi)


def run_case(case, sched):
    Exact, Approx, tools = classes()
    specs = case["inputs"]["pool"]
    if not specs:
        raise InvalidCase("empty pool")
    objs, models = [], []
    for i, s in enumerate(specs):
        try:
            o = build(s, Exact, Approx, tools)
            m = capture(build(s, Exact, Approx, tools), Exact)     # model from an independent twin
        except (InvalidCase, Violation):
            raise
        except Exception as e:
            raise InvalidCase("constructor raised %r (construction is not what C09 checks)" % (e,))
        objs.append(o)
        models.append(m)
    lazy = [bool(s.get("compute", True)) is False for s in specs] + []
    results_of = {}
    ok_ops = 0
    uses_result = 0
    rejected = 0
    lazy_triggers = 0
    loop_seen = [None]
    n0 = len(objs)

    def push(o, m):
        objs.append(o)
        models.append(m)
        lazy.append(False)

    def scale_x():
        xs = [abs(x) for m in models if m is not None and m.kind == "exact" for x in m.xs()]
        xs += [max(abs(m.start), abs(m.stop)) for m in models if m is not None and m.kind == "approx"]
        return max(xs + [1.0])

    def check_pool(opi, site):
        allm = [m for m in models if m is not None]
        t = probes_for(allm)
        for idx, (o, m) in enumerate(zip(objs, models)):
            if o is None:
                continue
            # relative to the magnitudes that went *into* the object: a result that cancels to ~0 carries
            # rounding noise of the size of its operands, not of its own (tiny) values
            tol = 1e-9 * max(m.tscale, 1e-300) + 1e-11 * scale_x() * (1.0 if m.kind == "exact" else 0.0)
            try:
                obs = observe(o, Exact)
            except Violation:
                raise
            except Exception as e:
                raise Violation("operands-untouched", site, "unobservable", "pool object %d can no longer be observed: %r" % (idx, e), opi)
            compare(obs, m, tol, t, site, "operands-untouched", "changed", opi, "pool object %d after the operation" % idx)

    for opi, op in enumerate(case["ops"]):
        kind = op.get("op")
        replay_of = None
        if kind == "replay":
            k = op.get("k")
            if not isinstance(k, int) or not 0 <= k < opi or case["ops"][k].get("op") == "replay":
                continue
            replay_of = k
            op = case["ops"][k]
            kind = op.get("op")

        def ref(i):
            if not isinstance(i, int) or not 0 <= i < len(objs):
                raise InvalidCase("operand index")
            return i

        expect_reject = None
        want = None
        site = kind
        try:
            if kind in ("add", "sub"):
                a, b = ref(op.get("a")), ref(op.get("b"))
                if objs[a] is None or objs[b] is None:
                    if replay_of is None:
                        push(None, None)
                    continue
                ma, mb = models[a], models[b]
                if ma.kind != mb.kind:
                    if replay_of is None:
                        push(None, None)
                    continue            # mixing classes is outside the statement
                site = "%s.%s" % (ma.kind, kind)
                if ma.hom_deg != mb.hom_deg:
                    expect_reject = "degree-mismatch"
                elif ma.kind == "approx" and ma.grid() != mb.grid():
                    expect_reject = "grid-mismatch"
                else:
                    sgn = 1.0 if kind == "add" else -1.0
                    if ma.kind == "exact":
                        n = max(ma.depth(), mb.depth())
                        xs = sorted(set(ma.xs()) | set(mb.xs()))
                        cps = []
                        for k_ in range(n):
                            t = np.array(xs)
                            cps.append(list(zip(xs, (ma.eval(k_, t) + sgn * mb.eval(k_, t)).tolist())))
                        want = ExactM(cps, ma.hom_deg)
                    else:
                        n = max(ma.depth(), mb.depth())
                        want = ApproxM(pad(ma.values, n) + sgn * pad(mb.values, n), ma.start, ma.stop, ma.num_steps, ma.hom_deg)
                if a >= n0 or b >= n0:
                    uses_result += 1
                if lazy[a] or lazy[b]:
                    lazy_triggers += 1
                fn = (lambda: objs[a] + objs[b]) if kind == "add" else (lambda: objs[a] - objs[b])
            elif kind in ("neg", "mul", "rmul", "div"):
                a = ref(op.get("a"))
                if objs[a] is None:
                    if replay_of is None:
                        push(None, None)
                    continue
                ma = models[a]
                site = "%s.%s" % (ma.kind, kind)
                c = op.get("c", 1.0)
                if kind != "neg" and (not isinstance(c, (int, float)) or isinstance(c, bool) or not math.isfinite(c)):
                    raise InvalidCase("scalar")
                if kind == "div" and c == 0:
                    raise InvalidCase("division by zero is not part of the statement")
                f = -1.0 if kind == "neg" else (1.0 / c if kind == "div" else float(c))
                if ma.kind == "exact":
                    want = ExactM([[(x, f * y) for x, y in d] for d in ma.cps], ma.hom_deg)
                else:
                    want = ApproxM(f * ma.values, ma.start, ma.stop, ma.num_steps, ma.hom_deg)
                if a >= n0:
                    uses_result += 1
                if lazy[a]:
                    lazy_triggers += 1
                fn = {"neg": lambda: -objs[a], "mul": lambda: objs[a] * c, "rmul": lambda: c * objs[a],
                      "div": lambda: objs[a] / c}[kind]
            elif kind in ("snap", "lc", "avg"):
                items = [ref(i) for i in (op.get("items") or [])]
                if not items or any(objs[i] is None or models[i].kind != "approx" for i in items):
                    if replay_of is None:
                        push(None, None)
                    continue
                site = "tools." + {"snap": "snap_pl", "lc": "lc_approx", "avg": "average_approx"}[kind]
                ms = [models[i] for i in items]
                if len({m.hom_deg for m in ms}) > 1:
                    if kind == "snap":
                        if replay_of is None:
                            push(None, None)
                        continue            # snap_pl documents the assumption of one degree
                    expect_reject = "degree-mismatch"
                g = op.get("grid")
                if g is not None:
                    g = _grid(g)
                else:
                    g = {"start": min(m.start for m in ms), "stop": max(m.stop for m in ms),
                         "num_steps": max(m.num_steps for m in ms)}
                kw = dict(g) if op.get("grid") is not None else {}
                res_vals = [m.resample(g["start"], g["stop"], g["num_steps"]) for m in ms]
                if any(lazy[i] for i in items):
                    lazy_triggers += 1
                if any(i >= n0 for i in items):
                    uses_result += 1
                if kind == "snap":
                    want = [ApproxM(v, g["start"], g["stop"], g["num_steps"], m.hom_deg) for v, m in zip(res_vals, ms)]
                    fn = lambda: tools.snap_pl([objs[i] for i in items], **kw)      # noqa: E731
                else:
                    coeffs = op.get("coeffs") if kind == "lc" else [1.0 / len(items)] * len(items)
                    if not (isinstance(coeffs, list) and len(coeffs) == len(items)
                            and all(isinstance(c, (int, float)) and math.isfinite(c) for c in coeffs)):
                        raise InvalidCase("coeffs")
                    if expect_reject is None:
                        n = max(len(v) for v in res_vals)
                        tot = sum(c * pad(v, n) for c, v in zip(coeffs, res_vals))
                        want = ApproxM(tot, g["start"], g["stop"], g["num_steps"], ms[0].hom_deg)
                    if kind == "lc":
                        fn = lambda: tools.lc_approx([objs[i] for i in items], coeffs, **kw)   # noqa: E731
                    else:
                        fn = lambda: tools.average_approx([objs[i] for i in items], **kw)       # noqa: E731
                if op.get("inside_loop"):
                    # the caller is in the middle of iterating the first operand (`for depth_values in P:`) when it
                    # makes the call, and carries on iterating afterwards: the loop must still see every depth
                    inner_, P_, seen_ = fn, objs[items[0]], loop_seen

                    def fn(inner_=inner_, P_=P_, seen_=seen_):
                        res_, k_ = None, 0
                        for _row in P_:
                            if k_ == 0:
                                res_ = inner_()
                            k_ += 1
                        seen_[0] = (k_, len(res_vals[0]))
                        return res_
            else:
                raise InvalidCase("op kind")
        except InvalidCase:
            raise

        # ---- execute
        loop_seen[0] = None
        raised = None
        out = None
        try:
            out = quiet(fn)
        except Exception as e:
            raised = e
        if expect_reject is not None:
            rejected += 1
            if raised is None:
                raise Violation("mismatch-rejected", site, expect_reject, "operation with a %s was accepted" % expect_reject, opi)
            res_model = None
        else:
            if raised is not None:
                lz = "lazy-operand" if any(lazy[i] for i in ([op.get("a"), op.get("b")] + list(op.get("items") or []))
                                           if isinstance(i, int) and i < len(lazy)) else "computed-operands"
                raise Violation("valid-operation-succeeds", site, lz + "/" + type(raised).__name__,
                                "%s raised %s: %s" % (site, type(raised).__name__, str(raised)[:300]), opi)
            ok_ops += 1
            if kind in ("snap", "lc", "avg") and op.get("inside_loop") and loop_seen[0] is not None and loop_seen[0][0] != loop_seen[0][1]:
                raise Violation("operands-untouched", site, "iteration-in-progress",
                                "a loop over the first operand that was in progress during the call saw %d of its %d depths"
                                % loop_seen[0], opi)
            res_model = want
            allm = [m for m in models if m is not None]
            t = probes_for(allm + ([want] if not isinstance(want, list) and want.kind == "exact" else []))
            if kind == "snap":
                if not isinstance(out, list) or len(out) != len(want):
                    raise Violation("result==pointwise-definition", site, "count", "snap_pl returned %r items for %d inputs"
                                    % (len(out) if isinstance(out, list) else type(out), len(want)), opi)
                for q, (o_, w_) in enumerate(zip(out, want)):
                    w_.tscale = max(w_.scale(), models[items[q]].tscale)
                    compare(observe(o_, Exact), w_, 1e-9 * max(w_.tscale, 1e-300), t, site, "result==pointwise-definition",
                            "value", opi, "snapped landscape %d" % q)
                out, res_model = out[0], want[0]
            else:
                opnds = [i for i in ([op.get("a"), op.get("b")] + list(op.get("items") or [])) if isinstance(i, int)]
                cmag = 1.0
                if kind in ("mul", "rmul"):
                    cmag = abs(float(op.get("c", 1.0)))
                elif kind == "div":
                    cmag = 1.0 / abs(float(op.get("c", 1.0)))
                elif kind == "lc":
                    cmag = max([abs(float(c_)) for c_ in op.get("coeffs") or [1.0]] + [1e-300]) * len(opnds)
                elif kind in ("add", "sub", "avg"):
                    cmag = 2.0
                want.tscale = max([want.scale()] + [models[i].tscale * cmag for i in opnds if models[i] is not None])
                tol = 1e-9 * max(want.tscale, 1e-300) + (1e-11 * scale_x() if want.kind == "exact" else 0.0)
                try:
                    obs = observe(out, Exact)
                except Violation:
                    raise
                except Exception as e:
                    raise Violation("result==pointwise-definition", site, "unobservable", "result cannot be observed: %r" % (e,), opi)
                compare(obs, want, tol, t, site, "result==pointwise-definition", "value", opi, "result")
        if replay_of is not None:
            pass        # the replay was compared with the same definition-level model: same result as before
        else:
            push(out if expect_reject is None else None, res_model)
        # operands and bystanders untouched, after successful and rejected operations alike
        check_pool(opi, site)
        sched.note("op%d %s%s %s" % (opi, "replay:" if replay_of is not None else "", kind,
                                    "rejected" if expect_reject else "ok"))
    return {
        "evals": len(case["ops"]), "ops": len(case["ops"]),
        "key": hashlib.sha1(json.dumps([specs, case["ops"]], sort_keys=True).encode()).hexdigest()[:16],
        "nontrivial": ok_ops >= 3 and uses_result >= 1,
        "probes": {"successful_ops": ok_ops, "results_used_as_operands": uses_result,
                   "lazy_compute_triggered_inside_op": lazy_triggers,
                   "pool_has_exact": int(any(m is not None and m.kind == "exact" for m in models[:n0])),
                   "pool_has_approx": int(any(m is not None and m.kind == "approx" for m in models[:n0]))},
        "faults": {"rejected_ops": rejected, "lazy_triggers": lazy_triggers,
                   "replayed_ops": sum(1 for o in case["ops"] if o.get("op") == "replay"),
                   "interleaved_clients": len({o.get("client") for o in case["ops"]})},
    }


def shrink_candidates(case):
    from sim import shrink as shr
    ops = case["ops"]
    # deleting an op shifts result indices: renumber references to later results
    n0 = len(case["inputs"]["pool"])
    for i in range(len(ops) - 1, -1, -1):
        c = copy.deepcopy(case)
        removed_slot = n0 + sum(1 for o in ops[:i] if o["op"] != "replay") if ops[i]["op"] != "replay" else None
        del c["ops"][i]
        bad = False
        for j, o in enumerate(c["ops"]):
            for key in ("a", "b"):
                if key in o and removed_slot is not None:
                    if o[key] == removed_slot:
                        bad = True
                    elif o[key] > removed_slot:
                        o[key] -= 1
            if "items" in o and removed_slot is not None:
                if removed_slot in o["items"]:
                    bad = True
                o["items"] = [x - 1 if x > removed_slot else x for x in o["items"]]
            if o["op"] == "replay":
                if o["k"] == i:
                    bad = True
                elif o["k"] > i:
                    o["k"] -= 1
        if not bad:
            yield c
    # simplify pool objects
    for i, s in enumerate(case["inputs"]["pool"]):
        for key in ("dgms",):
            if key in s:
                for deg in range(2):
                    for idx in shr.list_deletions(s["dgms"][deg], min_len=1):
                        c = copy.deepcopy(case)
                        for q in reversed(idx):
                            del c["inputs"]["pool"][i]["dgms"][deg][q]
                        yield c
        if "cps" in s:
            for d in range(len(s["cps"])):
                if len(s["cps"]) > 1:
                    c = copy.deepcopy(case)
                    del c["inputs"]["pool"][i]["cps"][d]
                    yield c
                for q in range(1, len(s["cps"][d]) - 1):
                    c = copy.deepcopy(case)
                    del c["inputs"]["pool"][i]["cps"][d][q]
                    yield c
        if "values" in s and len(s["values"]) > 1:
            for d in range(len(s["values"])):
                c = copy.deepcopy(case)
                del c["inputs"]["pool"][i]["values"][d]
                yield c
        if s.get("compute") is False:
            c = copy.deepcopy(case)
            c["inputs"]["pool"][i]["compute"] = True
            yield c
    for i, o in enumerate(ops):
        if "c" in o:
            for nv in (1.0, 2.0, -1.0):
                if o["c"] != nv:
                    c = copy.deepcopy(case)
                    c["ops"][i]["c"] = nv
                    yield c
        if "grid" in o:
            c = copy.deepcopy(case)
            del c["ops"][i]["grid"]
            yield c
    for path, v in shr._paths(case["inputs"]["pool"]):
        if isinstance(v, list) or path[-1] in ("hom_deg", "num_steps"):
            continue
        for nv in shr.simpler_numbers(v):
            c = copy.deepcopy(case)
            shr._set(c["inputs"]["pool"], path, nv)
            yield c
