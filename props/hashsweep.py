"""Real-PYTHONHASHSEED phase shared by C01/C06/C07: the same generated cases are
evaluated by unpatched code in fresh interpreters started under real hash seeds
(ground truth for the orders deployments actually meet)."""
import copy
import importlib
import time

from sim import runner
from sim.sched import derive_seed


def hash_seeds(seed, n):
    out = [0]
    i = 0
    while len(out) < n:
        h = derive_seed(seed, "hashseed", i) % 4294967295 + 1
        if h not in out:
            out.append(h)
        i += 1
    return out


def sweep_worker(modname, tier, seed, lo, hi, hs):
    from props import match_common as mc
    mod = importlib.import_module(modname)
    agg = runner.Agg()
    viols, harness = [], []
    try:
        for h in hs:                       # start the interpreters concurrently
            mc.get_server(h)
        for idx in range(lo, hi):
            case = runner.make_case(mod, tier, seed, idx)
            to_real = getattr(mod, "to_real_case", None)
            if to_real:
                case = to_real(case, hs)
            else:
                case["config"]["set_order"] = "real"
                case["config"]["hashseeds"] = list(hs)
            if case is None:
                continue
            res = runner.execute(mod, case)
            if res["status"] == "ok":
                agg.add_case(case, res)
            elif res["status"] == "violation":
                agg.add_case(case, res)
                agg.viol_count += 1
                c2 = copy.deepcopy(case)
                c2["tape"] = list(res["sched"].tape)
                c2["violation"] = res["violation"]
                viols.append(c2)
            else:
                harness.append("hash-seed sweep idx %d: %s" % (idx, res.get("detail")))
            if len(viols) > 5 or len(harness) > 3:
                break
    finally:
        mc.close_servers()
    return agg, viols, harness


def sweep(modname, ctx, n_cases, n_seeds, group=4):
    t0 = time.time()
    pool = ctx["pool"]
    hs = hash_seeds(ctx["seed"], n_seeds)
    groups = [hs[i:i + group] for i in range(0, len(hs), group)]
    futs = []
    # spread cases x seed-groups over the pool
    # about one task per pool worker in total: every task has to start its own interpreters
    splits = max(1, ctx["jobs"] // len(groups))
    per_task = max(10, (n_cases + splits - 1) // splits)
    # indices offset so that the sweep sees other cases than the simulated phase start
    for g in groups:
        lo = 0
        while lo < n_cases:
            hi = min(n_cases, lo + per_task)
            futs.append(pool.submit(sweep_worker, modname, ctx["tier"], ctx["seed"], lo, hi, g))
            lo = hi
    agg = runner.Agg()
    viols, harness = [], []
    for f in futs:
        a, v, h = f.result(timeout=1800)
        agg.merge(a)
        viols.extend(v)
        harness.extend(h)
    stats = {"real_hashseed_phase": {
        "interpreters_started": len(futs) * group if groups else 0,
        "distinct_hash_seeds": len(hs),
        "hash_seeds": hs[:8] + (["..."] if len(hs) > 8 else []),
        "cases": n_cases, "evaluations": agg.evals, "violations": agg.viol_count,
        "wall_s": round(time.time() - t0, 1),
    }}
    return stats, viols, harness
