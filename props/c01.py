"""C01 - bottleneck distance is the true min-max matching cost, for every
iteration order of the str-keyed sets inside the Hopcroft-Karp search (every hash
seed), every warnings-filter state, every input representation."""
import hashlib
import json
import math  # noqa: F401

import numpy as np

from models import ref_matching as rm
from props import dgmgen, match_common as mc
from sim import simset
from sim.sched import HarnessError, InvalidCase, Violation

ID = "C01"
NEEDS_ZYGOTE = True          # only used if a change makes the distance functions run joblib workers in processes
TITLE = "Bottleneck distance is the true min-max matching cost"
CASE_TIMEOUT_S = 120.0
PLAN = {
    "quick": {"runs": 16000, "chunk": 50, "shrink_s": 30.0},
    "thorough": {"budget_s": 600.0, "chunk": 40, "shrink_s": 60.0},
}
RULE = ("case = pair of generated diagrams (sizes 0..4 enumeration tier, 0..40 quick / 0..150 thorough "
        "reference tier; lattice/half-integer ties, floats at scales 1e-6..1e6, ulp near-ties, repeated, "
        "shared, diagonal and infinite-death points, four input representations) evaluated k=2..6 times, "
        "each under a fresh scheduler-owned iteration order of every str-keyed set of the matcher (modes "
        "uniform/sparse/reverse/insertion) and a scheduler-chosen warnings filter; plus the same cases in "
        "fresh interpreters under real PYTHONHASHSEED values. distinct_nontrivial = distinct input pairs "
        "(SHA-1 of the two point lists) with both diagrams non-empty, >= 3 finite points in total, "
        "evaluated under >= 2 orders of which at least one took a non-insertion choice.")
ASSUMPTIONS = [
    "every permutation of a str-keyed set is a legal CPython iteration order (salted str hashes); "
    "int-keyed sets keep CPython's real order",
    "reference = threshold search + scipy maximum_bipartite_matching on my own augmented matrix, "
    "cross-checked against definition-level enumeration of all partial matchings whenever both sizes <= 4",
    "sampling, not proof: a clean batch is evidence only",
]
REAL_COMPONENTS = ["persim.bottleneck (working tree)", "hopcroftkarp 1.2.4 (real code; only its name `set` "
                   "is rebound to SimSet)", "numpy", "python warnings machinery",
                   "real CPython set order in the PYTHONHASHSEED sweep"]
STUB_COMPONENTS = ["builtin set inside hopcroftkarp -> SimSet (order decided by the scheduler) in the "
                   "simulated phase only"]

_layers_max = [0]
_wrapped = [False]


def _wrap_bfs():
    """Probe only: record the number of BFS layers the matcher needed."""
    if _wrapped[0]:
        return
    import hopcroftkarp
    cls = hopcroftkarp.HopcroftKarp
    orig = cls._HopcroftKarp__bfs

    def bfs(self):
        layers = orig(self)
        if len(layers) > _layers_max[0]:
            _layers_max[0] = len(layers)
        return layers

    cls._HopcroftKarp__bfs = bfs
    _wrapped[0] = True


reset_world = mc.reset_world


def gen_case(rng, tier):
    r = rng.random()
    if r < 0.35:
        max_n = 4
    elif r < 0.8:
        max_n = 12
    else:
        max_n = rng.choice((40, 40, 40, 40, 90)) if tier == "quick" else rng.choice((40, 80, 150))
    A, B = dgmgen.gen_pair(rng, max_n)
    staircase = rng.random() < 0.015
    if staircase:
        # tied staircase: every point ties with two neighbours of the other diagram, so augmenting paths run through
        # the whole graph (the matcher recurses once per vertex of the path)
        n_ = rng.choice((30, 60, 120))
        off_ = rng.choice((0.5, 0.5, 0.25))
        A = [[float(i), float(i) + 100.0] for i in range(n_)]
        B = [[p[0] - off_, p[1] - off_] for p in A]
        if rng.random() < 0.5:
            A, B = B, A
    if rng.random() < 0.06:
        # "at every numeric scale": both diagrams multiplied by one power of two far outside everyday magnitudes (exact,
        # so ties stay ties); beyond single precision's range in both directions, never near overflow
        e_ = rng.choice((127, 128, 130, 200, 500, 900, -127, -130, -200, -500, -900))
        mx_ = max([abs(x) for p in A + B for x in p if math.isfinite(x)] + [1.0])
        if mx_ * 2.0 ** e_ < 1e300:
            A = [[x * 2.0 ** e_ for x in p] for p in A]
            B = [[x * 2.0 ** e_ for x in p] for p in B]
    k = rng.randint(2, 6 if max_n <= 12 else 3)
    # a short call history before the pair under test: other pairs evaluated first in the same process, biased to
    # pairs of the same total size with a different split (a point moved from one diagram to the other)
    prelude = []
    r = rng.random()
    if r < 0.3 and max_n <= 40:
        fa = [p for p in A if math.isfinite(p[1])]
        fb = [p for p in B if math.isfinite(p[1])]
        if fa and rng.random() < 0.5:
            j = rng.randrange(len(fa))
            prelude.append([fa[:j] + fa[j + 1:], fb + [fa[j]]])
        elif fb:
            j = rng.randrange(len(fb))
            prelude.append([fa + [fb[j]], fb[:j] + fb[j + 1:]])
        if rng.random() < 0.3:
            prelude.append([fb, fa])
    elif r < 0.4 and max_n <= 40:
        prelude.append(list(dgmgen.gen_pair(rng, min(max_n, 8), allow_inf=False)))
    u8 = rng.random() < 0.08
    if u8:
        A, B = dgmgen.gen_u8_pair(rng, max_n)
        prelude = []
    # other callers in the same process: 1-2 more pairs evaluated by concurrent threads (re-entrancy)
    conc = []
    if max_n <= 12 and rng.random() < 0.12:
        for _ in range(rng.randint(1, 2)):
            conc.append(list(dgmgen.gen_pair(rng, rng.choice((4, 8)), allow_inf=False)))
    case_ = {
        "inputs": {"dgm1": A, "dgm2": B, "rep1": dgmgen.representation(rng, A),
                   "rep2": dgmgen.representation(rng, B), "prelude": prelude},
        "config": {"set_order": "sim", "modes": [rng.choice(mc.ORDER_MODES) for _ in range(k)],
                   "warn_filter": rng.choice(mc.WARN_FILTERS_AND_ERROR), "prewarm_registry": rng.random() < 0.3},
        "ops": [],
    }
    if rng.random() < 0.25 or staircase:
        case_["config"]["stack"] = rng.choice(mc.STACKS[3:])
    if staircase:
        case_["inputs"].update(rep1="f64", rep2="f64", prelude=[])
        case_["config"]["modes"] = case_["config"]["modes"][:2]
    mx2_ = max([abs(x) for p in A + B for x in p if math.isfinite(x)] + [1.0])
    if mx2_ > 1e30 or (0 < mx2_ < 1e-30):
        # far outside the range of the narrow / integer forms: plain float64 arrays or nested lists
        for r_ in ("rep1", "rep2"):
            if case_["inputs"][r_] not in ("f64", "list", "view", "fortran"):
                case_["inputs"][r_] = "f64"
    if conc:
        case_["inputs"]["concurrent"] = conc
        case_["config"]["p_switch"] = rng.choice((2, 4, 8))
    if u8:
        case_["inputs"]["rep1"] = case_["inputs"]["rep2"] = "u8"
    elif A and B and rng.random() < 0.12:
        how = rng.choice(dgmgen.SHARED)
        if how in ("cols4", "interleave", "window"):
            n_ = min(len(A), len(B))
            A, B = A[:n_], B[:n_]
            if how == "window" and n_ >= 2:
                k_ = rng.randint(1, n_ - 1)
                B = A[k_:] + B[:k_]
        case_["inputs"].update(dgm1=A, dgm2=B, rep1="f64", rep2="f64", shared=how)
    return case_


def case_key(inp):
    return hashlib.sha1(json.dumps([inp["dgm1"], inp["dgm2"]]).encode()).hexdigest()[:16]


def close(v, ref, scale):
    if math.isnan(v):
        return False
    return abs(v - ref) <= 1e-12 * max(abs(ref), scale)


def oracle_value(SA, TB):
    ref = rm.ref_bottleneck(SA, TB)
    if len(SA) <= 4 and len(TB) <= 4:
        en = rm.enum_minmax(SA, TB)
        if abs(en - ref) > 1e-12 * max(abs(en), 1e-300):
            raise HarnessError("reference models disagree: enumeration %r vs threshold search %r on %r %r"
                               % (en, ref, SA.tolist(), TB.tolist()))
    return ref


def run_case(case, sched):
    with mc.parallel_world(sched, case):
        return _run_case(case, sched)


def _run_case(case, sched):
    inp, cfg = case["inputs"], case["config"]
    dgmgen.check_diagram_json(inp["dgm1"])
    dgmgen.check_diagram_json(inp["dgm2"])
    _wrap_bfs()
    _layers_max[0] = 0
    A = dgmgen.materialize(inp["dgm1"], inp.get("rep1", "f64"))
    B = dgmgen.materialize(inp["dgm2"], inp.get("rep2", "f64"))
    shared_used = 0
    if inp.get("shared") is not None:
        # both diagrams are views into one buffer of the caller
        if inp["shared"] not in dgmgen.SHARED:
            raise InvalidCase("shared")
        vw_ = dgmgen.shared_views(inp["dgm1"], inp["dgm2"], inp["shared"]) \
            if inp.get("rep1", "f64") == "f64" and inp.get("rep2", "f64") == "f64" else None
        if vw_ is not None:
            A, B = vw_
            shared_used = 1
    # the oracle starts from the values the handed-over objects denote (narrow floats are rounded values)
    ptsA, ptsB = dgmgen.as_points(A), dgmgen.as_points(B)
    SA, TB = rm.finite_part(ptsA), rm.finite_part(ptsB)
    n_inf = (len(ptsA) - len(SA)) + (len(ptsB) - len(TB))
    coords = [abs(x) for p in list(SA) + list(TB) for x in p]
    scale = max(coords) if coords else 1.0
    ref = oracle_value(SA, TB)
    tags = []
    if n_inf:
        tags.append("with-inf")
    if len(SA) == 0 or len(TB) == 0:
        tags.append("with-empty")
    tag = "+".join(tags) or "finite"

    vals = []
    simset.CTX.iters = simset.CTX.permuted = 0
    # the call history before the pair under test (every evaluation is held to the same oracle)
    n_prelude = 0
    for pi, pq in enumerate(inp.get("prelude") or []):
        if not (isinstance(pq, list) and len(pq) == 2):
            raise InvalidCase("prelude")
        dgmgen.check_diagram_json(pq[0])
        dgmgen.check_diagram_json(pq[1])
        P, Q = rm.finite_part(pq[0]), rm.finite_part(pq[1])
        pref = oracle_value(P, Q)
        if cfg.get("set_order", "sim") == "sim":
            pv, _, _ = mc.call_bottleneck(sched, dgmgen.materialize(pq[0]), dgmgen.materialize(pq[1]), False,
                                          (cfg.get("modes") or ["uniform"])[0], "ignore")
        else:
            pv, _, _ = mc.call_bottleneck_real(int((cfg.get("hashseeds") or [0])[0]), pq[0], pq[1], "f64", "f64")
        n_prelude += 1
        psc = max([abs(x) for p_ in list(P) + list(Q) for x in p_] + [1.0])
        if not close(pv, pref, psc):
            raise Violation("value==min-max-cost", "bottleneck", ("gt-ref" if pv > pref else "lt-ref") + "/history",
                            "call #%d of the history returned %r, true min-max matching cost is %r" % (pi, pv, pref))
    if cfg.get("set_order", "sim") == "sim":
        modes = cfg.get("modes") or ["uniform"]
        if not modes:
            raise InvalidCase("no evaluation")
        wf = cfg.get("warn_filter", "always")
        if wf not in ("always", "default", "once", "ignore", "module", "error"):
            raise InvalidCase("bad filter")
        for k, mode in enumerate(modes):
            if mode not in ("uniform", "sparse", "reverse", "insertion"):
                raise InvalidCase("bad mode")
            try:
                v, _, nwarn = mc.call_bottleneck(sched, A, B, False, mode, wf, stack=cfg.get("stack"))
            except mc.WarnedAsError:
                # injected fault (warnings are errors in this process): failing with the warning is acceptable, a wrong
                # value is not; the evaluation is repeated under 'always' so that the case still decides something
                sched.count("calls_failed_with_the_warning")
                v, _, nwarn = mc.call_bottleneck(sched, A, B, False, mode, "always")
            sched.note("eval%d %s -> %s warn=%d" % (k, mode, v.hex() if not math.isnan(v) else "nan", nwarn))
            vals.append((v, "order#%d(%s)" % (k, mode)))
            if n_inf and wf == "always" and nwarn < 1:
                raise Violation("inf-dropped-with-warning", "bottleneck", "no-warning",
                                "diagrams contain %d infinite-death points, filter 'always', "
                                "but no 'non-finite' warning was emitted" % n_inf)
            sched.count("warnfilter:" + wf)
    else:
        hs = cfg.get("hashseeds") or []
        if not hs:
            raise InvalidCase("no hash seeds")
        for h in hs:
            v, _, nwarn = mc.call_bottleneck_real(int(h), inp["dgm1"], inp["dgm2"],
                                                  inp.get("rep1", "f64"), inp.get("rep2", "f64"))
            sched.note("hashseed %s -> %s" % (h, v.hex() if not math.isnan(v) else "nan"))
            vals.append((v, "PYTHONHASHSEED=%s" % h))
            sched.count("real_hashseed_evals")
            if n_inf and nwarn < 1:
                raise Violation("inf-dropped-with-warning", "bottleneck", "no-warning",
                                "no warning under PYTHONHASHSEED=%s" % h)

    for v, where in vals:
        if not close(v, ref, scale):
            d = "nan" if math.isnan(v) else ("gt-ref" if v > ref else "lt-ref")
            hist = "+after-history" if n_prelude else ""
            raise Violation("value==min-max-cost", "bottleneck", d + "/" + tag + hist,
                            "returned %r under %s, true min-max matching cost is %r (|dgm1|=%d |dgm2|=%d finite%s)"
                            % (v, where, ref, len(SA), len(TB),
                               "; %d other pair(s) were evaluated earlier in the same process" % n_prelude if n_prelude else ""))
    v0 = vals[0][0]
    for v, where in vals[1:]:
        if v != v0:
            raise Violation("order-independent", "bottleneck", "differs/" + tag,
                            "returned %r under %s but %r under %s" % (v0, vals[0][1], v, where))

    # ---- concurrent callers: the same evaluation while other threads evaluate other pairs
    conc_stats = {}
    conc = inp.get("concurrent") or []
    if conc and cfg.get("set_order", "sim") == "sim":
        import warnings
        from sim import callers as cc
        bott, _ = mc.sut()
        jobs = [(A, B, ref, scale)]
        for pq in conc:
            if not (isinstance(pq, list) and len(pq) == 2):
                raise InvalidCase("concurrent")
            dgmgen.check_diagram_json(pq[0])
            dgmgen.check_diagram_json(pq[1])
            P, Q = rm.finite_part(pq[0]), rm.finite_part(pq[1])
            if len(P) != len(pq[0]) or len(Q) != len(pq[1]):
                raise InvalidCase("finite pairs only")
            jobs.append((dgmgen.materialize(pq[0]), dgmgen.materialize(pq[1]), oracle_value(P, Q),
                         max([abs(x) for p_ in list(P) + list(Q) for x in p_] + [1.0])))
        if len(jobs) > 4:
            raise InvalidCase("too many concurrent callers")
        thunks = [(lambda a_=a_, b_=b_: bott(a_, b_)) for a_, b_, _, _ in jobs]
        with simset.order_scope(sched, (cfg.get("modes") or ["uniform"])[0]):
            with warnings.catch_warnings(record=True):
                warnings.simplefilter("always")
                outs = cc.run_concurrent(sched, thunks, cfg.get("p_switch", 4), conc_stats)
        for ci, ((st, v), (_, _, r_, sc_)) in enumerate(zip(outs, jobs)):
            if st != "ok":
                raise Violation("no-exception", "bottleneck(concurrent)", type(v).__name__,
                                "caller #%d of %d concurrent callers: bottleneck raised %s: %s" % (ci, len(jobs), type(v).__name__, v))
            v = float(v)
            if not close(v, r_, sc_):
                raise Violation("value==min-max-cost", "bottleneck(concurrent)", "nan" if math.isnan(v) else ("gt-ref" if v > r_ else "lt-ref"),
                                "caller #%d of %d concurrent callers (each with its own diagrams) got %r, true min-max "
                                "matching cost is %r; sequentially the same call returned %r" % (ci, len(jobs), v, r_, vals[0][0] if ci == 0 else "the reference"))
        sched.note("concurrent %d callers ok switches=%d" % (len(jobs), conc_stats.get("thread_switches", 0)))

    D_cands = np.concatenate([rm.linf_costs(SA, TB)[0].ravel(), 0.5 * (SA[:, 1] - SA[:, 0]),
                              0.5 * (TB[:, 1] - TB[:, 0])]) if len(SA) + len(TB) else np.zeros(0)
    probes = {
        "pair_views_of_one_buffer": shared_used,
        "tie_at_optimum": int((D_cands == ref).sum() > 1),
        "optimum_is_diagonal_cost": int(len(SA) + len(TB) > 0 and (
            (0.5 * (SA[:, 1] - SA[:, 0]) == ref).any() or (0.5 * (TB[:, 1] - TB[:, 0]) == ref).any())),
        "optimum_is_cross_cost": int(len(SA) > 0 and len(TB) > 0 and (rm.linf_costs(SA, TB)[0] == ref).any()),
        "both_empty": int(len(SA) == 0 and len(TB) == 0),
        "one_empty": int((len(SA) == 0) != (len(TB) == 0)),
        "inf_dropped": int(n_inf > 0),
        "augmenting_path_longer_than_one_edge": int(_layers_max[0] > 2),
        "enumeration_tier": int(len(SA) <= 4 and len(TB) <= 4),
        "size_ge_40": int(len(SA) + len(TB) >= 40),
        "non_f64_representation": int(inp.get("rep1") != "f64" or inp.get("rep2") != "f64"),
    }
    return {
        "evals": len(vals),
        "key": case_key(inp),
        "nontrivial": len(SA) > 0 and len(TB) > 0 and len(SA) + len(TB) >= 3 and len(vals) >= 2
        and (simset.CTX.permuted > 0 or cfg.get("set_order") != "sim"),
        "probes": probes,
        "faults": {"set_iterations_ordered": simset.CTX.iters, "non_insertion_choices": simset.CTX.permuted,
                   "cases_with_call_history": int(n_prelude > 0),
                   "concurrent_batches": conc_stats.get("concurrent_batches", 0),
                   "thread_preemption_points": conc_stats.get("preemption_points", 0),
                   "thread_switches": conc_stats.get("thread_switches", 0)},
    }


def shrink_candidates(case):
    from sim import shrink as shr
    import copy
    if case["inputs"].get("concurrent"):
        c = copy.deepcopy(case)
        del c["inputs"]["concurrent"]
        yield c
        for i in range(len(case["inputs"]["concurrent"])):
            if len(case["inputs"]["concurrent"]) > 1:
                c = copy.deepcopy(case)
                del c["inputs"]["concurrent"][i]
                yield c
    pre = case["inputs"].get("prelude") or []
    for i in range(len(pre)):
        c = copy.deepcopy(case)
        del c["inputs"]["prelude"][i]
        yield c
    # fewer evaluations first, then boring modes, then the generic passes on the inputs
    cfg = case["config"]
    modes = cfg.get("modes") or []
    for idx in shr.list_deletions(modes, min_len=1):
        c = copy.deepcopy(case)
        for i in reversed(idx):
            del c["config"]["modes"][i]
        yield c
    for i, m in enumerate(modes):
        if m != "insertion":
            c = copy.deepcopy(case)
            c["config"]["modes"][i] = "insertion"
            yield c
    hs = cfg.get("hashseeds") or []
    for idx in shr.list_deletions(hs, min_len=1):
        c = copy.deepcopy(case)
        for i in reversed(idx):
            del c["config"]["hashseeds"][i]
        yield c
    if case["inputs"].get("shared") is not None:
        c = copy.deepcopy(case)
        c["inputs"]["shared"] = None
        yield c
    for rep in ("rep1", "rep2"):
        if case["inputs"].get(rep) != "f64":
            c = copy.deepcopy(case)
            c["inputs"][rep] = "f64"
            yield c
    if cfg.get("warn_filter") != "always":
        c = copy.deepcopy(case)
        c["config"]["warn_filter"] = "always"
        yield c
    if cfg.get("stack"):
        c = copy.deepcopy(case)
        del c["config"]["stack"]
        yield c
    for sec_case in shr.generic_candidates({"inputs": {"dgm1": case["inputs"]["dgm1"],
                                                       "dgm2": case["inputs"]["dgm2"]}},
                                           sections=("inputs",)):
        c = copy.deepcopy(case)
        c["inputs"]["dgm1"] = sec_case["inputs"]["dgm1"]
        c["inputs"]["dgm2"] = sec_case["inputs"]["dgm2"]
        yield c


def cleanup():
    pass


def extra_phase(ctx):
    from props import hashsweep
    return hashsweep.sweep(__name__, ctx, n_cases=120 if ctx["tier"] == "quick" else 400,
                           n_seeds=4 if ctx["tier"] == "quick" else 64)
