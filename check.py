#!/venv/bin/python
"""Single entry point of the persim deterministic-simulation checks.

    check.py C01 --tier quick|thorough [--seed N] [--runs N] [--budget S] [--jobs J]
    check.py C01 --replay replays/C01-....json
    check.py selftest-determinism [--props C01,C05] [--n 40]
    check.py smoke

Exit: 0 property held (KNOWN-FINDING lines possible); 1 unlisted violation
(line `VIOLATION property=<id> replay=<path>`); 2 harness error.
"""
import argparse
import os
import sys

VERIF = os.path.dirname(os.path.abspath(__file__))
PY = "/venv/bin/python"

_FIXED_ENV = {
    "PYTHONHASHSEED": "0",
    "OPENBLAS_NUM_THREADS": "1",
    "OMP_NUM_THREADS": "1",
    "MKL_NUM_THREADS": "1",
    "MPLBACKEND": "Agg",
    "PYTHONDONTWRITEBYTECODE": "1",
    "PERSIM_VERIF": "1",
}


def _reexec():
    if os.environ.get("_PERSIM_VERIF_CHILD") == "1":
        return
    env = dict(os.environ)
    env.update(_FIXED_ENV)
    if "VERIF_HARNESS_HASHSEED" in os.environ:      # determinism self-test only
        env["PYTHONHASHSEED"] = os.environ["VERIF_HARNESS_HASHSEED"]
    env["_PERSIM_VERIF_CHILD"] = "1"
    env.setdefault("MPLCONFIGDIR", "/tmp/persim-verif-mpl")
    py = PY if os.path.exists(PY) else sys.executable
    os.execve(py, [py, "-W", "ignore::SyntaxWarning", os.path.abspath(__file__)] + sys.argv[1:], env)


def main():
    _reexec()
    repo = os.environ.get("VERIF_REPO", "/repo")
    # always import the current working tree of the repository
    sys.path.insert(0, repo)
    sys.path.insert(0, VERIF)
    import warnings
    warnings.filterwarnings("ignore", category=SyntaxWarning)
    # warnings emitted by the code under test are observed through catch_warnings(record=True) where a clause needs
    # them; they are never printed (the filters, the registries and NumPy's error state stay real)
    warnings.showwarning = lambda *a, **k: None

    ap = argparse.ArgumentParser()
    ap.add_argument("what")
    ap.add_argument("--tier", default=os.environ.get("VERIF_TIER", "quick"))
    ap.add_argument("--seed", type=int, default=int(os.environ.get("VERIF_SEED", "0")))
    ap.add_argument("--runs", type=int, default=None)
    ap.add_argument("--budget", type=float,
                    default=float(os.environ["VERIF_BUDGET_S"]) if "VERIF_BUDGET_S" in os.environ else None)
    ap.add_argument("--jobs", type=int, default=None)
    ap.add_argument("--replay", default=None)
    ap.add_argument("--quiet", action="store_true")
    ap.add_argument("--props", default=None)
    ap.add_argument("--n", type=int, default=30)
    a = ap.parse_args()

    from sim import entropy
    entropy.install("boot")      # OS entropy behind a seam before persim (and the zygote) exist
    import numpy as np
    np.seterr(all="ignore")      # floating-point warnings of the code under test are not errors; results are unchanged
    import persim  # noqa: F401  (fails loudly if the tree does not import)
    pfile = os.path.realpath(persim.__file__)
    if not pfile.startswith(os.path.realpath(repo) + os.sep):
        print("HARNESS-ERROR persim imported from %s, not from %s" % (pfile, repo))
        return 2

    from sim import runner, selftest
    if a.what == "smoke":
        return selftest.smoke()
    if a.what == "_digests":
        import json
        print(json.dumps(selftest.digests(a.props.split(","), a.n, a.seed)))
        return 0
    if a.what == "selftest-determinism":
        return selftest.determinism(a.props.split(",") if a.props else None, a.n, a.seed)
    pid = a.what.upper()
    if a.replay:
        return runner.replay_file(pid, a.replay, quiet=a.quiet)
    return runner.run_property(pid, a.tier, a.seed, jobs=a.jobs, budget_s=a.budget, runs=a.runs)


if __name__ == "__main__":
    try:
        rc = main()
    except SystemExit:
        raise
    except BaseException:                      # my own machinery crashed: never exit 1 (that means "violation")
        import traceback
        traceback.print_exc()
        print("HARNESS-ERROR uncaught exception in the check harness (see traceback above)")
        rc = 2
    sys.exit(rc)
