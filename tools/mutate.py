#!/usr/bin/env python3
"""Run a check against a scratch copy of the repository with one textual mutation
(or a patch file) applied.  The copy lives under a fresh temp dir outside /repo and
/verif and is removed afterwards.

  tools/mutate.py --file persim/bottleneck.py --old 'D[i, j] <= d' --new 'D[i, j] < d' -- ./check.py C01 --runs 400
  tools/mutate.py --patch seeded/x/patch.diff -- ./check.py C01
"""
import argparse
import os
import shutil
import subprocess
import sys
import tempfile

ap = argparse.ArgumentParser()
ap.add_argument("--file")
ap.add_argument("--old")
ap.add_argument("--new")
ap.add_argument("--count", type=int, default=1)
ap.add_argument("--patch")
ap.add_argument("--repo", default="/repo")
ap.add_argument("cmd", nargs=argparse.REMAINDER)
a = ap.parse_args()
cmd = a.cmd[1:] if a.cmd and a.cmd[0] == "--" else a.cmd
tmp = tempfile.mkdtemp(prefix="persim-mut-")
try:
    dst = os.path.join(tmp, "repo")
    os.makedirs(dst)
    shutil.copytree(os.path.join(a.repo, "persim"), os.path.join(dst, "persim"),
                    ignore=shutil.ignore_patterns("__pycache__"))
    if a.patch:
        subprocess.run(["patch", "-p1", "-s", "-d", dst, "-i", os.path.abspath(a.patch)], check=True)
    else:
        p = os.path.join(dst, a.file)
        s = open(p).read()
        if s.count(a.old) < 1:
            sys.exit("mutation target not found: %r" % a.old)
        s = s.replace(a.old, a.new, a.count)
        open(p, "w").write(s)
    env = dict(os.environ)
    env["VERIF_REPO"] = dst
    rc = subprocess.run(cmd, env=env).returncode
    print("[mutate] exit code %d" % rc)
    sys.exit(rc)
finally:
    shutil.rmtree(tmp, ignore_errors=True)
