#!/bin/bash
# Soak: quick tier of every check under several seeds; prints one line per run and any alarm.
# usage: tools/soak.sh "1 2 3" [props...]
cd "$(dirname "$0")/.."
seeds=${1:-"1 2 3"}; shift
props=${@:-C01 C05 C06 C07 C09 C11 C12 C17 C18 C19 C20}
for s in $seeds; do for p in $props; do
  VERIF_SEED=$s timeout 1800 ./check.py $p --tier quick 2>&1 | grep -E "quick:|VIOLATION|HARNESS|KNOWN|signature|detail" | sed "s/^/[seed $s] /" | cut -c1-400
done; done
