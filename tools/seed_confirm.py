#!/usr/bin/env python3
"""Confirm a seeded change and file it under /verif/seeded/<name>/.

  tools/seed_confirm.py --name C11-a --stage /tmp/seedstage/C11/a --property C11 --checks C11[,C19] --needs "..."

Steps (all in a scratch git worktree of /repo outside /repo and /verif, removed afterwards):
  1. apply patch.diff (or patch.rebased.diff) to /repo HEAD;
  2. run the pinned test suite           -> must pass (108);
  3. run demo.py with the change         -> must exit non-zero;
  4. revert, run demo.py                 -> must exit 0;
  5. run the listed /verif checks against a scratch copy carrying the change -> records exit codes + signatures.
"""
import argparse
import json
import os
import re
import shutil
import subprocess
import sys
import tempfile
import time

VERIF = os.path.dirname(os.path.dirname(os.path.abspath(__file__)))
ap = argparse.ArgumentParser()
ap.add_argument("--name", required=True)
ap.add_argument("--stage", required=True)
ap.add_argument("--property", required=True)
ap.add_argument("--checks", required=True)
ap.add_argument("--needs", default="")
ap.add_argument("--tier-args", default="")
a = ap.parse_args()

patch = os.path.join(a.stage, "patch.rebased.diff")
if not os.path.exists(patch):
    patch = os.path.join(a.stage, "patch.diff")
demo = os.path.join(a.stage, "demo.py")
wt = tempfile.mkdtemp(prefix="persim-seedwt-")
os.rmdir(wt)
log = {}


def sh(cmd, cwd=None, timeout=1800):
    r = subprocess.run(cmd, shell=True, cwd=cwd, capture_output=True, text=True, timeout=timeout)
    return r.returncode, (r.stdout + r.stderr)


try:
    rc, out = sh("git -C /repo worktree add -q --detach %s HEAD" % wt)
    assert rc == 0, out
    head = sh("git -C /repo rev-parse --short HEAD")[1].strip()
    rc, out = sh("git apply --check %s" % patch, cwd=wt)
    if rc != 0:
        rc3, out3 = sh("git apply --3way %s" % patch, cwd=wt)
        if rc3 != 0:
            print("PATCH DOES NOT APPLY to HEAD %s:\n%s\n%s" % (head, out, out3))
            sys.exit(3)
        sh("git reset -q", cwd=wt)
    else:
        sh("git apply %s" % patch, cwd=wt)
    rebased = sh("git diff -- persim", cwd=wt)[1]
    os.makedirs(os.path.join(wt, "_seed", "x"), exist_ok=True)
    shutil.copy(demo, os.path.join(wt, "_seed", "x", "demo.py"))
    rc, out = sh("/venv/bin/python -m pytest -q -p no:cacheprovider -x -W ignore 2>&1 | tail -3", cwd=wt)
    log["tests_with_change"] = out.strip().splitlines()[-1] if out.strip() else ""
    tests_ok = " passed" in log["tests_with_change"] and "failed" not in log["tests_with_change"]
    rc_with, out_with = sh("/venv/bin/python -W ignore _seed/x/demo.py", cwd=wt)
    log["demo_with_change_rc"] = rc_with
    log["demo_with_change_tail"] = out_with.strip()[-400:]
    sh("git checkout -q -- persim", cwd=wt)
    rc_wo, out_wo = sh("/venv/bin/python -W ignore _seed/x/demo.py", cwd=wt)
    log["demo_without_change_rc"] = rc_wo
    log["demo_without_change_tail"] = out_wo.strip()[-300:]
finally:
    sh("git -C /repo worktree remove --force %s" % wt)
    shutil.rmtree(wt, ignore_errors=True)

ok = tests_ok and rc_with != 0 and rc_wo == 0
print("tests with change: %s | demo with: rc=%d | demo without: rc=%d  => %s" % (
    log["tests_with_change"], rc_with, rc_wo, "CONFIRMED" if ok else "NOT CONFIRMED"))
if not ok:
    print(json.dumps(log, indent=1))
    sys.exit(4)

dst = os.path.join(VERIF, "seeded", a.name)
os.makedirs(dst, exist_ok=True)
with open(os.path.join(dst, "patch.diff"), "w") as f:
    f.write(rebased)
shutil.copy(demo, os.path.join(dst, "demo.py"))
if os.path.exists(os.path.join(a.stage, "notes.md")):
    shutil.copy(os.path.join(a.stage, "notes.md"), os.path.join(dst, "notes.md"))

results = {}
for chk in a.checks.split(","):
    cmd = "%s/tools/mutate.py --patch %s -- %s/check.py %s %s" % (VERIF, os.path.join(dst, "patch.diff"), VERIF, chk, a.tier_args)
    rc, out = sh(cmd, cwd=VERIF, timeout=3600)
    sigs = sorted(set(re.findall(r"signature=(\S+)", out)))
    summ = [l for l in out.splitlines() if " quick:" in l or " thorough:" in l]
    results[chk] = {"cmd": "tools/mutate.py --patch seeded/%s/patch.diff -- ./check.py %s %s" % (a.name, chk, a.tier_args),
                    "exit_code": 1 if "[mutate] exit code 1" in out else (0 if "[mutate] exit code 0" in out else 2),
                    "violation_signatures": sigs[:12], "summary": summ[-1] if summ else ""}
    print(chk, "->", results[chk]["exit_code"], sigs[:4])
# replay files of scratch-copy runs carry a per-copy tag ("-m<n>"): remove those only, another run may be writing its own
import glob
for f_ in glob.glob(os.path.join(VERIF, "replays", "*-m[0-9]*.json")):
    try:
        if time.time() - os.path.getmtime(f_) > 1800:
            os.remove(f_)
    except OSError:
        pass

meta = {
    "name": a.name, "breaks_property": a.property, "repo_head_when_confirmed": head,
    "needs_to_manifest": a.needs,
    "origin": "written by an independent sub-agent that was given only the property text and a scratch worktree",
    "confirmation": {
        "ran": ["git worktree add <scratch> HEAD; git apply patch.diff",
                "cd <scratch> && /venv/bin/python -m pytest -q -p no:cacheprovider -x -W ignore",
                "cd <scratch> && /venv/bin/python -W ignore _seed/x/demo.py   (with, then without the change)"],
        "tests_with_change": log["tests_with_change"],
        "demo_with_change_exit": rc_with, "demo_without_change_exit": rc_wo,
        "demo_failure_tail": log["demo_with_change_tail"][-300:],
    },
    "checks": results,
    "caught_by": [k for k, v in results.items() if v["exit_code"] == 1],
}
with open(os.path.join(dst, "meta.json"), "w") as f:
    json.dump(meta, f, indent=1)
print("filed under", dst, "caught_by", meta["caught_by"])
