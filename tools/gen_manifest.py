#!/usr/bin/env python3
"""Regenerate /verif/MANIFEST.json from the table below (kept in one place so the
manifest is always valid and consistent with what exists)."""
import json
import os

VERIF = os.path.dirname(os.path.dirname(os.path.abspath(__file__)))

CLAIMED = {
    "C01": dict(
        design="4/C01", engine="order",
        technique="deterministic simulation: scheduler-owned set-iteration orders inside the Hopcroft-Karp "
                  "matcher (SimSet seam) + real PYTHONHASHSEED interpreters, value checked against enumeration/"
                  "reference min-max matching model; baton-scheduled concurrent caller threads with sys.settrace line "
                  "preemption (sim/callers.py); minimised replayable case files",
        text="Seeded search over (diagram pair x short call history in the same process x iteration order of every "
             "str-keyed set in the matcher x warnings filter x input form: f64/f32/i64/i32/u16/u8 arrays, views, "
             "Fortran order, nested lists); every evaluation compared with a definition-level enumeration "
             "(sizes <= 4) or an independent threshold-search reference, and all orders/hash seeds must return "
             "the bit-identical value; plus re-entrancy: the same evaluation while 1-2 other caller threads evaluate other "
             "pairs under scheduler-decided line-level interleaving, pairs handed over as views into one buffer, and "
             "NumPy error-state / print-option settings per case. Exploration: evidence, not proof.",
        note="Trusts numpy/scipy, my reference matcher (cross-checked against enumeration on every small case), and "
             "that any permutation of a str-keyed set is a legal CPython order."),
    "C06": dict(
        design="4/C06", engine="order",
        technique="deterministic simulation: scheduler-owned set-iteration orders (SimSet) + real PYTHONHASHSEED "
                  "interpreters; every returned matching validated as a certificate (coverage, row costs, max/sum == "
                  "distance, same distance without matching under an independent order)",
        text="Seeded search over (finite diagram pair x call history x set order x input form incl. unsigned integers). "
             "The bottleneck matching varies "
             "with the order, so it is re-validated under every simulated order and real hash seed; no tie-break is "
             "assumed. The Wasserstein half is the fault-free control (deterministic solver). Exploration.",
        note="Trusts my cost formulas and numpy; Wasserstein cross costs compared with the sqrt(eps) tolerance of DESIGN.md 3."),
    "C07": dict(
        design="4/C07", engine="order",
        technique="deterministic simulation: each side of each metric/invariance law evaluated under its own "
                  "scheduler-owned set order or its own real PYTHONHASHSEED interpreter; metamorphic oracles",
        text="Seeded search over diagram triples up to 60 (quick) / 300 (thorough) points, with infinite-death rows, "
             "long chains of 300-800 points, and the caller's arrays reused across all laws of a case; ten laws from "
             "the statement, "
             "bottleneck clauses exact or rel 1e-12, Wasserstein clauses with the documented tolerance. Exploration.",
        note="Laws are necessary conditions; optimality itself is C01's oracle. Wasserstein tolerance is 1e-6*(M+N)*max|coord|."),
    "C05": dict(
        design="4/C05", engine="rng",
        technique="deterministic simulation: the global NumPy RNG consumed by the mGH upper-bound heuristic is replaced "
                  "by a scheduler-owned generator (uniform/degenerate/sticky/real-seeded draw schedules); bounds checked "
                  "against an exact branch-and-bound mGH reference",
        text="Seeded search over (connected graph pair up to 10 vertices with exact reference, a thin tail up to 220 "
             "vertices under the size-free clauses x RNG draw schedule x mapping_sample_size_order); lower <= exact "
             "<= upper, multiples of 1/2, isomorphic => 0, with exact 2*mGH by branch-and-bound over all maps (validated "
             "against flat enumeration for <= 4 vertices); 2-3 concurrent caller threads sharing the one global RNG under the "
             "baton scheduler; adjacency fills upper/symmetric/lower/mixed. Exploration.",
        note="Exact reference practical to about 9 vertices; larger graphs only get the size-free clauses."),
    "C17": dict(
        design="4/C17", engine="rng",
        technique="deterministic simulation: scheduler-owned RNG stream shared across all pairs of a collection call, "
                  "scheduler-chosen warnings filter, representation/relabelling swarm; exact mGH reference incl. "
                  "largest-component fallback",
        text="Seeded search over representations (list/dense/CSR/CSC/COO x fill x dtype incl. int8/uint8 and stored "
             "zeros), relabellings, collections of 2..12 graphs given as list, tuple or one 3-D array, and disconnected "
             "graphs under every RNG mode: identical lower bounds for identical labellings, "
             "valid brackets everywhere, symmetric zero-diagonal matrices, warning + largest component (also when 2-3 caller "
             "threads are inside the call at once: one warning per call must reach the recorder). Exploration.",
        note="Ties among largest components accept any of them; bool dtype only for lists/dense arrays."),
    "C12": dict(
        design="4/C12", engine="history",
        technique="deterministic simulation of configuration histories: seeded, scheduler-interleaved operation "
                  "sequences over several live imagers, invariant checked after every step through public attributes "
                  "and narrow-kernel edge probes against a rational-arithmetic geometry model; minimised replayable histories",
        text="No scheduling nondeterminism exists here; the search is over histories (constructor / range / pixel-size "
             "assignments / fits / idempotent re-assignments, 1..12 steps, 1..3 interleaved instances) biased to inexact "
             "quotients and non-multiples. After every step: width/height == extents, resolution*pixel_size == "
             "width/height, image shape == resolution, pixel boundaries where the reported geometry says (probe), "
             "request covered with <= 1 pixel excess; refits on the data of an earlier fit or on data with the same extremes; "
             "fit data as f64/f32/int8..int64/uint8/uint16 arrays and nested lists. Exploration.",
        note="Identities rel 1e-9; probes resolve boundary errors above 1% of a pixel; only in-domain operations generated."),
    "C11": dict(
        design="4/C11", engine="parallel",
        technique="deterministic simulation of joblib.Parallel (SimParallel seam): isolated reused workers forked from a "
                  "pristine zygote behind a pickle boundary, cooperative threads and line-preemptive baton threads, with "
                  "dispatch / completion / preemption decided by the seeded scheduler; serial code as reference",
        text="Seeded search over (imager configuration x diagrams x call plan x worker schedule): alone vs in collections, "
             "n_jobs in {None,1,2,3,-1,16}, permutations, unions (additivity), zero-weight points, skew=False on "
             "pre-converted input, fit_transform; non-negativity and mass bound; caller's diagrams and imager state "
             "byte-identical after every call. Exploration.",
        note="SimParallel replaces joblib.Parallel for n_jobs >= 2; n_jobs None/1 run real code. Thread modes model the "
             "threading backend users select via joblib.parallel_config."),
    "C18": dict(
        design="4/C18", engine="history",
        technique="deterministic simulation of estimator histories: scheduler-interleaved fit / transform / fit_transform / "
                  "refit sequences over several imagers and landscapers, checked step by step against a fresh-twin "
                  "reference model; imager collection transforms under the SimParallel worker scheduler",
        text="Seeded search over histories (2..14 ops, 1..4 estimators, 2..4 deliberately shifted/scaled/disjoint data "
             "sets): after every fit the instance equals a fresh estimator fitted once on the latest data, fit;transform "
             "== fit_transform, transform repeatable and state/input preserving, collection output k is the image of "
             "diagram k under every worker schedule; the user may assign start/stop/num_steps (attribute, set_params, pinning "
             "the reported value, releasing with None) or the imager's pixel size / ranges between fits, and hand over "
             "birth-persistence data (skew=False). Exploration.",
        note="The landscaper has no scheduling nondeterminism: simulation contributes interleaved histories and the "
             "reference twin; outputs compared rel 1e-9."),
    "C09": dict(
        design="4/C09", engine="history",
        technique="deterministic simulation of operation histories over a shared pool of landscape objects (results fed "
                  "back as operands, rejected operations, deferred computation firing inside operations, replays), each "
                  "step compared pointwise with a definition-level reference model and every pool object re-observed",
        text="No scheduling nondeterminism exists here; the search is over shared-operand histories of + - neg * / "
             "snap_pl lc_approx average_approx on exact and grid landscapes incl. compute=False objects and degree/grid "
             "mismatches. Result == pointwise definition at all breakpoints/midpoints/outside points and every depth; "
             "operands and bystanders unchanged after successful and rejected operations. Exploration.",
        note="Models are captured from constructor output; tolerance 1e-9*value scale + 1e-11*abscissa scale."),
    "C20": dict(
        design="4/C20", engine="plot-env",
        technique="deterministic simulation of pyplot's process-global state: several clients own axes, an environment "
                  "actor driven by the seeded scheduler moves the current figure/axes and opens/closes stray figures "
                  "between calls; artists added to the target axes compared with a data-level model, all other axes "
                  "checked for conservation",
        text="Seeded search over (clients x plotting calls x option combinations x which axes is current): scatter "
             "offsets == float32 points, infinity line inside the view, limits, title/labels/legend; matching plots: "
             "segment multiset == matching rows (matchings from the real distance functions under scheduler-owned set "
             "orders), distinct style for a maximal row, requested labels on both diagrams; isolation of every other axes, "
             "no stray figure; label lists and arrays are objects the caller keeps and reuses across calls. Exploration.",
        note="Agg canvas, artists inspected as data; ax=None means the current axes; 2-D landscape plots are unchecked traffic."),
    "C19": dict(
        design="4/C19", engine="plot-env",
        technique="deterministic simulation of a multi-client interpreter: scheduler-interleaved call scripts over every "
                  "public entry point with an environment actor perturbing pyplot state, warnings filters and the global "
                  "RNG, OS entropy behind a seam; each result compared with the same call executed alone in a fork of a "
                  "pristine zygote; byte-level argument digests before/after",
        text="Seeded search over call histories (6..20 calls, 2..4 clients, 5 input representations, invalid calls "
             "included): no argument modified whether the call returned or raised; result == pristine-process reference "
             "(stateful estimators after replaying their own mutator prefix); seeded mGH reproducible; non-randomised "
             "entry points leave the global RNG untouched; equal-valued representations agree; bursts of 2-3 pure entry "
             "points executed by concurrent caller threads under the baton scheduler must equal the pristine reference "
             "too. Exploration.",
        note="Reference and history run the same code in different process states; floats rel 1e-12. persistent_entropy's "
             "representation clause is limited to ndarray forms (its documented input)."),
}

NOT_APPLICABLE = {
    "C02": "pure function of one call's arguments (one deterministic SciPy assignment on a matrix built from the inputs): no schedule, clock, fault, history or shared state for a simulator to own; seeded input generation would be property-based testing, not this family",
    "C03": "pure single-threaded sweep over sorted lists; the only quantifier is inputs; nothing to schedule or fault-inject",
    "C04": "closed-form per-point accumulation; pure in (diagram, configuration); no nondeterminism or history",
    "C08": "pure in (diagram, grid); the history-dependent transformer clause is covered under C18",
    "C10": "closed-form segment integrals; pure in the landscape; no schedule/fault/history dimension",
    "C13": "pure numerics selected by the correlation argument; no nondeterminism, I/O, time or state",
    "C14": "double loop over the two inputs; pure; no simulation dimension",
    "C15": "deterministic loop over M fixed directions; pure; no simulation dimension",
    "C16": "pure in (barcodes, flags); no simulation dimension",
}


def main():
    checks = []
    for pid, c in sorted(CLAIMED.items()):
        checks.append({
            "property_id": pid,
            "quick_cmd": "timeout 900 /venv/bin/python check.py %s --tier quick" % pid,
            "thorough_cmd": "timeout 3600 /venv/bin/python check.py %s --tier thorough" % pid,
            "evidence_file": "evidence/%s.json" % pid,
            "replay_cmd_template": "/venv/bin/python check.py %s --replay {path}" % pid,
            "engine": c["engine"],
            "level_claimed": {"category": "exploration", "text": c["text"], "design_ref": "DESIGN.md section " + c["design"]},
            "level_note": c["note"],
            "technique": c["technique"],
        })
    m = {
        "version": 1,
        "setup_cmd": "timeout 900 /venv/bin/python check.py smoke",
        "hooks": {
            "guard": "PERSIM_VERIF",
            "enable": "no source hooks exist: every seam is installed from /verif by rebinding a name in the calling "
                      "module's namespace (hopcroftkarp.set, persim.gromov_hausdorff.np, persim.images.Parallel) or by "
                      "sys.settrace; checks import /repo's working tree directly (pure Python, rebuild = re-import)",
            "baseline_off_cmd": "cd /repo && /venv/bin/python -m pytest -ra -q -p no:cacheprovider --timeout=900 --continue-on-collection-errors",
            "source_commits": [],
            "add_only": True,
        },
        "engines": [
            {"name": "order", "path": "sim/simset.py, props/match_common.py, props/hashsweep.py",
             "serves_properties": ["C01", "C06", "C07"],
             "kind_free_text": "scheduler-owned set iteration order inside hopcroftkarp + real PYTHONHASHSEED interpreters"},
            {"name": "rng", "path": "sim/simrandom.py", "serves_properties": ["C05", "C17"],
             "kind_free_text": "scheduler-owned NumPy global RNG as seen by persim.gromov_hausdorff"},
            {"name": "parallel", "path": "sim/simparallel.py", "serves_properties": ["C11", "C18"],
             "kind_free_text": "scheduler-owned joblib.Parallel: forked isolated workers, cooperative and line-preemptive baton threads"},
            {"name": "history", "path": "sim/runner.py, sim/shrink.py", "serves_properties": ["C09", "C12", "C18", "C19"],
             "kind_free_text": "seeded operation histories over shared objects, checked step by step against reference models"},
            {"name": "callers", "path": "sim/callers.py", "serves_properties": ["C01", "C05", "C17", "C19"],
             "kind_free_text": "concurrent caller threads (re-entrancy): real threads, one baton, sys.settrace line events inside persim and the matcher as scheduler-decided preemption points"},
            {"name": "plot-env", "path": "props/c19.py, props/c20.py, sim/runner.py", "serves_properties": ["C19", "C20"],
             "kind_free_text": "environment actor perturbing pyplot current axes / figure registry, warnings filters, the global RNG, NumPy error state and print options between operations"},
        ],
        "checks": checks,
        "not_applicable": [{"property_id": k, "reason": v} for k, v in sorted(NOT_APPLICABLE.items())]
        + [{"property_id": k, "reason": "claimed in DESIGN.md; check not yet committed in this revision"}
           for k in ALL_PLANNED if k not in CLAIMED],
        "notes": "All checks: cwd=/verif, honour VERIF_SEED / VERIF_TIER / VERIF_BUDGET_S, import persim from $VERIF_REPO "
                 "(default /repo) working tree. Exit 0 held, 1 unlisted violation, 2 harness error. Known findings: known_findings.json.",
    }
    with open(os.path.join(VERIF, "MANIFEST.json"), "w") as f:
        json.dump(m, f, indent=1)
    print("MANIFEST.json written: %d checks, %d not_applicable" % (len(checks), len(m["not_applicable"])))


ALL_PLANNED = ["C01", "C05", "C06", "C07", "C09", "C11", "C12", "C17", "C18", "C19", "C20"]

if __name__ == "__main__":
    main()
